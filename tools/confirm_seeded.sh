#!/bin/bash
# usage: confirm_seeded.sh <worktree> <seeded-dir>   — confirms: compiles, baseline tests pass with the
# change, demonstration fails with it and passes without it.  Prints a one-line verdict.
set -u
W=$1; D=$2
export GOFLAGS=-mod=mod GOPROXY=off
OV=$W/SEEDED/overlay.json
cd $W && git checkout -q -- . && git clean -fdq -e SEEDED
TESTS="./pkg/bifs/... ./pkg/cli/... ./pkg/dkvpx/... ./pkg/input/... ./pkg/lib/... ./pkg/mlrval/... ./pkg/output/... ./pkg/pbnjay-strptime/... ./pkg/scan/... ./pkg/transformers/utils/..."
run_demo() { # $1 = tag
  if [ -f $D/demo_test.go ]; then
    pkgdir=$(grep -o 'pkg/[a-z/_-]*' $D/demo_test.go | head -1 | sed 's#/$##')
    cp $D/demo_test.go $W/$pkgdir/zz_seeded_demo_test.go
    (cd $W && go test -count=1 -overlay $OV ./$pkgdir/ > /tmp/demo_$1.log 2>&1); rc=$?
    rm -f $W/$pkgdir/zz_seeded_demo_test.go
    return $rc
  else
    (cd $W && go build -overlay $OV -o $W/SEEDED/mlr_confirm ./cmd/mlr > /tmp/demo_build_$1.log 2>&1) || return 99
    bash $D/demo.sh $W/SEEDED/mlr_confirm > /tmp/demo_$1.log 2>&1; rc=$?
    rm -f $W/SEEDED/mlr_confirm
    return $rc
  fi
}
git apply $D/patch.diff || { echo "VERDICT $D: patch does not apply"; exit 1; }
(go build -overlay $OV ./cmd/mlr ./pkg/... > /tmp/confirm_build.log 2>&1) ; b=$?
(go test -count=1 $TESTS > /tmp/confirm_tests.log 2>&1); t=$?
run_demo with; dw=$?
git checkout -q -- . && git clean -fdq -e SEEDED
run_demo without; dwo=$?
echo "VERDICT $D: build=$b tests=$t demo_with_change=$dw demo_without=$dwo"
