#!/bin/bash
# Regenerate the DSL parser (pkg/parsing/parser/parser.go is empty in the pinned tree) from
# /repo/pkg/parsing/mlr.bnf with PGPG from the module cache.  The result is cached under
# /verif/.cache keyed by the grammar hash; prints the path of the generated file.
# If /repo's own parser.go is non-empty it is used as is (prints its path).
set -euo pipefail
REPO=${VERIF_REPO:-/repo}
CACHE=/verif/.cache
mkdir -p "$CACHE"
if [ -s "$REPO/pkg/parsing/parser/parser.go" ]; then
  echo "$REPO/pkg/parsing/parser/parser.go"
  exit 0
fi
H=$(sha256sum "$REPO/pkg/parsing/mlr.bnf" | cut -c1-16)
OUT="$CACHE/parser-$H.go"
if [ -s "$OUT" ]; then
  echo "$OUT"
  exit 0
fi
export GOFLAGS=-mod=mod GOPROXY=off
TMPD=$(mktemp -d "$CACHE/gen.XXXXXX")
trap 'rm -rf "$TMPD"' EXIT
(
  cd "$REPO"
  go run github.com/johnkerl/pgpg/go/generators/cmd/parsegen-tables -o "$TMPD/parser.json" pkg/parsing/mlr.bnf >&2
  go run github.com/johnkerl/pgpg/go/generators/cmd/parsegen-code -o "$TMPD/parser.go" -package parser -type MlrParser "$TMPD/parser.json" >&2
)
mv "$TMPD/parser.go" "$OUT"
echo "$OUT"
