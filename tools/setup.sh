#!/bin/bash
# MANIFEST.setup_cmd: build the engine from files on disk only (offline) and generate the parser.
set -euo pipefail
cd /verif/gose
export GOFLAGS=-mod=mod GOPROXY=off GOTOOLCHAIN=local
mkdir -p /verif/bin /verif/.cache
go1.26.8 build -o /verif/bin/gose .
/verif/tools/genparser.sh > /dev/null
echo "setup ok"
