#!/usr/bin/env python3
"""Regenerates /verif/MANIFEST.json from /verif/checks.json (per-property claim texts) and the
properties file.  A property without an entry in checks.json is listed under not_applicable."""
import json
props=[json.loads(l) for l in open('/verif/properties.jsonl')]
spec=json.load(open('/verif/checks.json'))
man={
 "version":1,
 "setup_cmd":"/verif/tools/setup.sh",
 "hooks":{"guard":"verif","enable":"no source hooks in /repo: harness files (build tag verif) and the run-time shim are injected by overlay (go/packages Overlay for the engine, go test -overlay for native replay)",
          "baseline_off_cmd":"/verif/tools/baseline_off.sh","source_commits":[],"add_only":True},
 "engines":[{"name":"gose","path":"/verif/gose","serves_properties":sorted(spec["checks"].keys()),"kind_free_text":"Go SSA symbolic executor (go/ssa + SMT: z3 5.1.0, cvc5 1.0, z3 4.8.12), decision-prefix forking, native replay of every model"}],
 "checks":[],
 "notes":"Every check is bounded symbolic execution of the real code; bounds, stubs and the parts of each property that lie outside the claim are listed in each evidence file and in DESIGN.md.",
 "not_applicable":[]
}
for p in props:
    pid=p["id"]
    c=spec["checks"].get(pid)
    if c is None:
        man["not_applicable"].append({"property_id":pid,"reason":spec["not_applicable"].get(pid,"check not built yet")})
        continue
    man["checks"].append({
        "property_id":pid,
        "quick_cmd":"/verif/check %s --tier quick"%pid,
        "thorough_cmd":"/verif/check %s --tier thorough"%pid,
        "evidence_file":"/verif/evidence/%s.json"%pid,
        "replay_cmd_template":"/verif/check %s --replay {path}"%pid,
        "engine":"gose",
        "level_claimed":{"category":"model_checking","text":c["text"],"design_ref":c.get("design_ref","DESIGN.md part A (A.2, "+pid+")")},
        "level_note":c["note"]+(" Thorough tier: runs the quick bounds (the deeper bounds were not seen to run clean within the session, so they are not registered)." if pid in spec.get("thorough_runs_quick_bounds",[]) else ""),
        "technique":c.get("technique","bounded symbolic execution of the real Go functions (go/ssa → SMT-LIB2, z3/cvc5), counterexamples replayed natively"),
    })
json.dump(man,open('/verif/MANIFEST.json','w'),indent=1)
print("checks:",[c["property_id"] for c in man["checks"]],"n/a:",len(man["not_applicable"]))
