#!/bin/bash
# usage: eval_seeded.sh <seeded-name> [tier]   — applies /verif/seeded/<name>/patch.diff to /repo, runs the
# check of its property, reverts /repo, and records the outcome in /verif/seeded/<name>/result.txt
set -u
N=$1; TIER=${2:-quick}
ID=${N%%-*}
D=/verif/seeded/$N
cd /repo && git diff --quiet || { echo "repo dirty"; exit 9; }
git -C /repo apply $D/patch.diff || { echo "patch does not apply"; exit 9; }
( cd /verif && timeout 1800 ./check $ID --tier $TIER > /tmp/eval_$N.log 2>&1 ); rc=$?
git -C /repo checkout -- .
{ echo "check $ID --tier $TIER exit=$rc"; grep -A1 "^VIOLATION\|^CHECK-PROBLEM\|^check " /tmp/eval_$N.log | cut -c1-400; } > $D/result.txt
echo "== $N: exit=$rc"; grep -c "^VIOLATION" /tmp/eval_$N.log
