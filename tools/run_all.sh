#!/bin/bash
# usage: run_all.sh [tier] — runs every registered check in turn and prints one line per property
TIER=${1:-quick}
cd /verif
for id in C01 C02 C03 C04 C05 C06 C07 C08 C09 C10 C11 C12 C13 C14 C15 C16 C17 C18 C19 C20; do
  s=$(date +%s)
  timeout ${RUN_ALL_TIMEOUT:-3600} ./check $id --tier $TIER > /tmp/runall_${TIER}_$id.log 2>&1; rc=$?
  e=$(date +%s)
  echo "$id tier=$TIER exit=$rc wall=$((e-s))s $(grep -c '^KNOWN-FINDING' /tmp/runall_${TIER}_$id.log) known; $(tail -1 /tmp/runall_${TIER}_$id.log | cut -c1-160)"
done
