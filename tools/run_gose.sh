#!/bin/bash
# usage: run_gose.sh <pkgdir> <entries> [extra gose flags]
# Builds the overlay (harness files + rt shim + generated parser) and runs gose.
set -euo pipefail
PKG=$1; ENTRIES=$2; shift 2
REPO=${VERIF_REPO:-/repo}
HD=/verif/harness/$PKG
PARSER=$(/verif/tools/genparser.sh)
ARGS=()
if [ "$PARSER" != "$REPO/pkg/parsing/parser/parser.go" ]; then
  ARGS+=(-overlay "$REPO/pkg/parsing/parser/parser.go=$PARSER")
fi
PKGNAME=$(grep -h '^package ' $HD/zz_verif_*.go | head -1 | awk '{print $2}')
TMP=$(mktemp -d /verif/.cache/run.XXXXXX)
trap 'rm -rf "$TMP"' EXIT
sed "s/PKGNAME/$PKGNAME/" /verif/harness/rt/zz_verif_rt.go.tmpl > $TMP/zz_verif_rt.go
ARGS+=(-overlay "$REPO/$PKG/zz_verif_rt.go=$TMP/zz_verif_rt.go")
for f in $HD/zz_verif_*.go; do
  ARGS+=(-overlay "$REPO/$PKG/$(basename $f)=$f")
done
export PATH=/root/go/pkg/mod/golang.org/toolchain@v0.0.1-go1.25.0.linux-amd64/bin:$PATH
export GOTOOLCHAIN=local GOFLAGS=-mod=mod GOPROXY=off
exec /verif/bin/gose -repo "$REPO" -pkg "$PKG" -entries "$ENTRIES" "${ARGS[@]}" "$@"
