#!/usr/bin/env python3
"""Markdown table of the seeded changes and what the checks report for them (from seeded/*/result.txt)."""
import json, os, re, sys
S = "/verif/seeded"
FIRST_MISSED = {"C08-dot-absent-left", "C12-unsparsify-full-record-passthrough", "C01-tsv-backslash-fastpath",
                "C04-done-flag-batch-relay", "C10-empty-percentiles-hoist", "C16-hms2sec-signed-hours",
                "C19-bz2in-flag-not-refused", "C19-gz-close-unchecked", "C17-chain-error-after-eos",
                "C17-flush-skip-empty-buffer", "C02-arrayify-int-keys", "C02-n2y-ifs", "C09-casefold-upper",
                "C15-pad-multibyte-padstring", "C20-close-drops-flush-error", "C20-lru-append-after-evict",
                "C05-repeat-shared-record", "C06-json-int-fastpath", "C09-sort-udf-slicesfunc", "C09-sort-verb-tie-text",
                "C10-mergefields-collapse-percentile-reuse", "C10-stats1-mode-running-winner", "C11-grep-flatten-inplace",
                "C12-nest-explode-empty-value", "C12-subs-regex-alternation",
                "C18-dkvp-ips-regex-empty-pair", "C18-strmatchx-first-match-optional-group",
                "C08-is-not-empty-absent", "C05-csv-implicit-header-carryover", "C05-put-end-block-stale-context",
                "C17-begin-error-lost-on-empty-input", "C17-redirect-close-masks-flush-error", "C19-inplace-shared-transformer-chain",
                "C13-ignore-empty-multi-key", "C14-positional-rename-unlinks-new-key", "C18-arena-paired-slabs",
                "C01-nidx-positional-key-cache", "C09-sortbykey-recursive-single-key", "C20-tee-literal-target-cache"}
NOT_EVALUATED_FIRST = {"C02-ps-alias-output-side", "C02-unflatten-fastpath-empty-collections", "C04-csvlite-schema-reset-batch-edge",
                       "C04-rename-stale-index", "C13-right-default-from-left", "C14-emit-multi-names", "C14-formulti-break",
                       "C15-capitalize-first-byte", "C15-ll-length-modifier-order", "C16-strftime-neg-fraction", "C16-verb-int-nanos-path",
                       "C20-dump-redirect-mode", "C20-split-group-name-cache",
                       "C10-fraction-cumu-zero", "C10-histogram-hi-edge", "C11-uniq-a-n-values-key", "C12-reshape-l2w-lastbucket", "C12-sparsify-f-filler"}
rows = []
for d in sorted(os.listdir(S)):
    p = os.path.join(S, d)
    if not os.path.isdir(p):
        continue
    meta = json.load(open(os.path.join(p, "meta.json")))
    summ = re.sub(r"\s+", " ", meta.get("summary", ""))
    summ = summ[:150] + ("…" if len(summ) > 150 else "")
    res = open(os.path.join(p, "result.txt")).read() if os.path.exists(os.path.join(p, "result.txt")) else ""
    m = re.search(r"exit=(\d+)", res)
    rc = m.group(1) if m else "?"
    labels = []
    for mm in re.finditer(r"harness=(\S+) kind=\S+ label=(\S+)", res):
        s = "%s [%s]" % (mm.group(1), mm.group(2))
        if s not in labels:
            labels.append(s)
    now = "**reported**: " + "; ".join(labels[:2]) if rc == "1" and labels else ("missed (exit %s)" % rc)
    rows.append("| %s | %s | %s | %s |" % (d, summ.replace("|", "\\|"), ("(harness added after reading the change summary)" if d in NOT_EVALUATED_FIRST else ("missed" if d in FIRST_MISSED else "reported")), now.replace("|", "\\|")))
print("| seeded change | what was changed | first pass | now |")
print("|---|---|---|---|")
print("\n".join(rows))
print()
print("%d changes; first pass: %d reported, %d missed, %d not evaluated before strengthening; now %d reported." % (len(rows), sum(1 for r in rows if "| reported |" in r), sum(1 for r in rows if "| missed |" in r), sum(1 for r in rows if "after reading" in r), sum(1 for r in rows if "**reported**" in r)))
