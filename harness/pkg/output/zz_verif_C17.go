//go:build verif

package output

// L-writer (C04) and E-post for the writer stage (C17) on the real ChannelWriter /
// channelWriterHandleBatch with a stub record writer: every record and print-string of every batch
// is written exactly once, in order; with flush-on-every-record a Flush follows each record before
// the next channel receive; done is signalled exactly once, after end-of-stream; a failing record
// writer posts an error BEFORE done is signalled.

import (
	"bufio"
	"errors"

	"github.com/johnkerl/miller/v6/pkg/cli"
	"github.com/johnkerl/miller/v6/pkg/mlrval"
	"github.com/johnkerl/miller/v6/pkg/types"
)

type c17Sink struct {
	writes int
	bytes  int
}

func (s *c17Sink) Write(p []byte) (int, error) {
	s.writes++
	s.bytes += len(p)
	return len(p), nil
}

type c17StubWriter struct {
	failAt int
	calls  int
	seen   []*mlrval.Mlrmap
	sawEnd bool
}

func (w *c17StubWriter) Write(rec *mlrval.Mlrmap, ctx *types.Context, out *bufio.Writer, isStdout bool) error {
	me := w.calls
	w.calls++
	if me == w.failAt {
		return errors.New("cannot express record")
	}
	if rec == nil {
		w.sawEnd = true
		return nil
	}
	w.seen = append(w.seen, rec)
	out.WriteString("r\n")
	return nil
}

func c17WriterDriver() {
	ctx := types.NewContext()
	nb := 1 + verifChoice("batches", 2)
	wch := make(chan []*types.RecordAndContext, 4)
	var recs []*mlrval.Mlrmap
	total := 0
	for b := 0; b < nb; b++ {
		var batch []*types.RecordAndContext
		n := verifChoice("batch_len", 3)
		for i := 0; i < n; i++ {
			if verifChoice("item", 2) == 0 {
				r := mlrval.NewMlrmapAsRecord()
				recs = append(recs, r)
				batch = append(batch, types.NewRecordAndContext(r, ctx))
			} else {
				batch = append(batch, types.NewOutputString("p\n", ctx))
			}
			total++
		}
		if b == nb-1 {
			batch = append(batch, types.NewEndOfStreamMarker(ctx))
		}
		wch <- batch
	}
	flush := verifChoice("flush_every_record", 2) == 1
	sink := &c17Sink{}
	bw := bufio.NewWriter(sink)
	w := &c17StubWriter{failAt: verifChoice("fail_at", len(recs)+2) - 1}
	done := make(chan bool, 1)
	errch := make(chan error, 1)
	opts := &cli.TWriterOptions{FlushOnEveryRecord: flush}

	ChannelWriter(wch, w, opts, done, errch, bw, false)

	verifAssert(len(done) == 1, "C04/writer/done-signalled-exactly-once")
	failed := w.failAt >= 0 && w.failAt < w.calls
	if failed {
		verifAssert(len(errch) == 1, "C17/writer/error-is-buffered")
		verifAssert(verifChanSeq(errch) < verifChanSeq(done), "C17/writer/error-buffered-before-done")
	} else {
		verifAssert(len(errch) == 0, "C17/writer/no-spurious-error")
		verifAssert(len(w.seen) == len(recs), "C04/writer/every-record-written-once")
		for i := 0; i < len(recs) && i < len(w.seen); i++ {
			verifAssert(w.seen[i] == recs[i], "C04/writer/records-in-order")
		}
		verifAssert(w.sawEnd, "C04/writer/end-of-stream-reaches-the-record-writer")
		verifAssert(len(wch) == 0, "C04/writer/all-batches-consumed")
		if flush {
			// one flush (= one sink write) per item that produced output, i.e. nothing is left
			// buffered between items
			verifAssert(sink.writes == total, "C04/writer/flush-after-every-record")
			verifAssert(bw.Buffered() == 0, "C04/writer/nothing-buffered-after-each-record")
		}
	}
	verifReach("C04/writer/end")
}

//verif:opts engine-only maxpaths=100000
func VerifC04_writer() { c17WriterDriver() }

//verif:opts engine-only maxpaths=100000
func VerifC17_writer_error_before_done() { c17WriterDriver() }
