//go:build verif

package output

// C01 (CSV) — a record written by the real CSV writer (WriteCSVRecordMaybeColorized into a real
// bufio.Writer) is read back by the real go-csv reader with the same cells, and an independent
// RFC-4180 reader recovers the same cells from Miller's bytes.

import (
	"bufio"
	"bytes"

	csv "github.com/johnkerl/miller/v6/pkg/go-csv"
)

// 25-line RFC-4180 reference parser of ONE record (fields separated by comma, optional quotes,
// "" is an escaped quote, record ends at LF or CRLF outside quotes).  ok=false on malformed text.
func c01RefParse(b []byte, comma byte) (fields []string, ok bool) {
	i := 0
	for {
		var f []byte
		if i < len(b) && b[i] == '"' {
			i++
			for {
				if i >= len(b) {
					return nil, false
				}
				if b[i] == '"' {
					if i+1 < len(b) && b[i+1] == '"' {
						f = append(f, '"')
						i += 2
						continue
					}
					i++
					break
				}
				f = append(f, b[i])
				i++
			}
		} else {
			for i < len(b) && b[i] != comma && b[i] != '\n' && !(b[i] == '\r' && i+1 < len(b) && b[i+1] == '\n') {
				if b[i] == '"' {
					return nil, false
				}
				f = append(f, b[i])
				i++
			}
		}
		fields = append(fields, string(f))
		if i < len(b) && b[i] == comma {
			i++
			continue
		}
		if i < len(b) && b[i] == '\n' && i+1 == len(b) {
			return fields, true
		}
		if i+1 < len(b) && b[i] == '\r' && b[i+1] == '\n' && i+2 == len(b) {
			return fields, true
		}
		return nil, false
	}
}

func c01HasCRLF(s string) bool {
	for i := 0; i+1 < len(s); i++ {
		if s[i] == '\r' && s[i+1] == '\n' {
			return true
		}
	}
	return false
}

func c01HasCR(s string) bool {
	for i := 0; i < len(s); i++ {
		if s[i] == '\r' {
			return true
		}
	}
	return false
}

//verif:opts unwind=300 maxpaths=400000
func VerifC01_csv_record_roundtrip() {
	// bounds: quick f1 <= 2 bytes, f2 <= 1 byte, OFS ','; thorough the same lengths, OFS in {',', ';', TAB}
	n1, n2, ncomma := 2, 1, 1
	if verifTier() > 0 {
		n1, n2, ncomma = 2, 1, 3 // (f2 <= 2 bytes did not finish within 15 minutes: not registered)
	}
	f1 := verifString("f1", verifChoice("len1", n1+1))
	f2 := verifString("f2", verifChoice("len2", n2+1))
	quoteAll := verifChoice("quoteall", 2) == 1
	useCRLF := verifChoice("crlf", 2) == 1
	comma := []rune{',', ';', '\t'}[verifChoice("ofs", ncomma)]
	// representable domain: the reader (like Go's encoding/csv) folds CRLF to LF inside fields, and
	// with CRLF line endings the writer documents that bare CR in a field is dropped
	verifAssume(!c01HasCRLF(f1) && !c01HasCRLF(f2))
	if useCRLF {
		verifAssume(!c01HasCR(f1) && !c01HasCR(f2))
	}
	// a trailing CR of the last field before LF looks like a CRLF terminator: not representable unquoted
	var sink bytes.Buffer
	bw := bufio.NewWriter(&sink)
	w := &RecordWriterCSV{}
	w.csvWriter = csv.NewWriter(bw)
	w.csvWriter.Comma = comma
	w.csvWriter.UseCRLF = useCRLF
	err := w.WriteCSVRecordMaybeColorized([]string{f1, f2}, bw, false, false, quoteAll)
	verifAssert(err == nil, "C01/csv/write-ok")
	bw.Flush()
	text := sink.Bytes()

	// independent RFC-4180 reader
	ref, ok := c01RefParse(text, byte(comma))
	verifAssert(ok, "C01/csv/output-is-rfc4180")
	if ok {
		verifAssert(len(ref) == 2, "C01/csv/rfc4180-reader-field-count")
		if len(ref) == 2 {
			r1, r2 := ref[0], ref[1]
			if useCRLF {
				// CRLF mode renders LF inside a field as CRLF
				verifAssert(len(r1) >= len(f1) && len(r2) >= len(f2), "C01/csv/rfc4180-reader-cells-crlf")
			} else {
				verifAssert(r1 == f1 && r2 == f2, "C01/csv/rfc4180-reader-recovers-cells")
			}
		}
	}

	// Miller's own reader
	rd := csv.NewReader(bytes.NewReader(text))
	rd.Comma = comma
	rd.LazyQuotes = false
	rec, rerr := rd.Read()
	verifAssert(rerr == nil, "C01/csv/read-back-ok")
	if rerr == nil {
		verifAssert(len(rec) == 2, "C01/csv/read-back-field-count")
		if len(rec) == 2 {
			verifAssert(rec[0] == f1 && rec[1] == f2, "C01/csv/read-back-same-cells")
		}
	}
	verifReach("C01/csv/end")
}
