//go:build verif

package output

// C20 — fan-out outputs are complete, ordered and well-formed for any number of targets.
// The real MultiOutputHandlerManager / FileOutputHandler (with their real per-file ChannelWriter
// goroutines run as coroutines, real bufio and real record writers) over a file-system stub, with
// the open-handle cache capacity rewritten from 256 to 2 (harness/patches.json) so that histories of
// 3 targets overflow it.  Every history of h writes to symbolically chosen targets, then Close:
// each target's bytes must equal ONE document rendered from the records routed to it, in order.

import (
	"bufio"
	"bytes"
	"os"

	"github.com/johnkerl/miller/v6/pkg/cli"
	"github.com/johnkerl/miller/v6/pkg/mlrval"
	"github.com/johnkerl/miller/v6/pkg/types"
)

var c20Content map[string][]byte
var c20Handles map[*os.File]string
var c20OpenCount int
var c20FailWritesFrom = -1 // index of the first (*os.File).Write call that fails (-1: never)
var c20WriteCalls int
var c20WriteFailed bool

func c20OpenFile(name string, flag int, perm os.FileMode) (*os.File, error) {
	f := &os.File{}
	c20Handles[f] = name
	c20OpenCount++
	if flag&os.O_TRUNC != 0 {
		c20Content[name] = nil
	} else if _, ok := c20Content[name]; !ok {
		c20Content[name] = nil
	}
	return f, nil
}

func c20Write(f *os.File, p []byte) (int, error) {
	me := c20WriteCalls
	c20WriteCalls++
	if c20FailWritesFrom >= 0 && me >= c20FailWritesFrom {
		c20WriteFailed = true
		return 0, os.ErrInvalid // stands for ENOSPC / EPIPE
	}
	name := c20Handles[f]
	c20Content[name] = append(c20Content[name], p...)
	return len(p), nil
}

func c20Close(f *os.File) error {
	delete(c20Handles, f)
	return nil
}

func c20Options(format string) *cli.TWriterOptions {
	o := cli.DefaultWriterOptions()
	o.OutputFileFormat = format
	cli.FinalizeWriterOptions(&o)
	return &o
}

func c20Record(i int) *mlrval.Mlrmap {
	r := mlrval.NewMlrmapAsRecord()
	r.PutReference("a", mlrval.FromInt(int64(i)))
	r.PutReference("b", mlrval.FromString("x"))
	return r
}

// one document rendered by a fresh writer of the same format
func c20Render(format string, idx []int) []byte {
	var sink bytes.Buffer
	bw := bufio.NewWriter(&sink)
	w, _ := Create(c20Options(format))
	ctx := types.NewContext()
	for _, i := range idx {
		w.Write(c20Record(i), ctx, bw, false)
	}
	w.Write(nil, ctx, bw, false)
	bw.Flush()
	return sink.Bytes()
}

var c20Fixed []int

func c20Target(i int) int {
	if c20Fixed != nil {
		return c20Fixed[i]
	}
	return verifChoice("target", 3)
}

func c20Run(format string, doAppend bool, tag string) {
	stateful := format == "csv" || format == "json"
	verifReplace("os.OpenFile", c20OpenFile)
	verifReplace("(*os.File).Write", c20Write)
	verifReplace("(*os.File).Close", c20Close)
	c20Content = map[string][]byte{}
	c20Handles = map[*os.File]string{}
	c20OpenCount = 0
	c20FailWritesFrom, c20WriteCalls, c20WriteFailed = -1, 0, false
	names := []string{"t0", "t1", "t2"}
	h := 4
	if verifTier() > 0 {
		h = 5
	}
	if c20Fixed != nil {
		h = len(c20Fixed)
	}
	// any of the targets may exist beforehand with old content (symbolic per target): overwrite
	// mode must replace it, append mode must keep it in front
	pre := []byte("old\n")
	preExists := []bool{false, false, false}
	for t := range names {
		if c20Fixed == nil && verifChoice("target_exists_beforehand", 2) == 1 {
			preExists[t] = true
			c20Content[names[t]] = append([]byte{}, pre...)
		}
	}
	mgr := NewFileOutputHandlerManager(c20Options(format), doAppend)
	ctx := types.NewContext()
	routed := [][]int{nil, nil, nil}
	// reference LRU of capacity 2, to know which targets get re-opened after an eviction
	var open []int
	reopened := []bool{false, false, false}
	everOpened := []bool{false, false, false}
	for i := 0; i < h; i++ {
		t := c20Target(i)
		isOpen := false
		for k, o := range open {
			if o == t {
				isOpen = true
				open = append(append([]int{}, open[:k]...), open[k+1:]...)
				break
			}
		}
		if !isOpen {
			if everOpened[t] {
				reopened[t] = true
			}
			if len(open) >= 2 {
				open = open[1:]
			}
		}
		open = append(open, t)
		everOpened[t] = true
		routed[t] = append(routed[t], i)
		err := mgr.WriteRecordAndContext(types.NewRecordAndContext(c20Record(i), ctx), names[t])
		verifAssert(err == nil, "C20/"+tag+"/write-ok")
	}
	errs := mgr.Close()
	verifAssert(len(errs) == 0, "C20/"+tag+"/close-ok")
	verifAssert(len(c20Handles) == 0, "C20/"+tag+"/every-handle-closed")
	verifAssert(verifLive() == 0, "C20/"+tag+"/every-writer-goroutine-finished")
	for t := range names {
		got := c20Content[names[t]]
		if len(routed[t]) == 0 {
			if preExists[t] {
				verifAssert(bytes.Equal(got, pre), "C20/"+tag+"/untargeted-file-untouched")
			} else {
				verifAssert(len(got) == 0, "C20/"+tag+"/untargeted-file-untouched")
			}
			continue
		}
		want := c20Render(format, routed[t])
		if doAppend && preExists[t] {
			want = append(append([]byte{}, pre...), want...)
		}
		if stateful && reopened[t] && c20Fixed == nil && verifKnown("C20-reopen-after-eviction") {
			// known finding: excluded region = this target was re-opened after an eviction and the
			// format keeps per-document state (header / brackets)
			continue
		}
		verifAssert(bytes.Equal(got, want), "C20/"+tag+"/target-holds-one-document-of-its-records-in-order")
	}
	verifReach("C20/" + tag + "/end")
}

// DKVP has no per-document state: the eviction / append-reopen logic alone
//verif:opts engine-only maxpaths=100000
func VerifC20_lru_dkvp() { c20Run("dkvp", false, "dkvp") }

//verif:opts engine-only maxpaths=100000
func VerifC20_lru_dkvp_append() { c20Run("dkvp", true, "dkvp-append") }

// CSV (one header) and JSON (one bracket pair): document state across eviction
//verif:opts engine-only maxpaths=100000
func VerifC20_lru_csv() { c20Run("csv", false, "csv") }

//verif:opts engine-only maxpaths=100000
func VerifC20_lru_json() { c20Run("json", false, "json") }

// confirms the known finding: t0 is evicted by t1, t2 and re-opened in append mode with a fresh
// writer, so its file holds two CSV headers
//verif:opts engine-only expect-violation=C20-reopen-after-eviction
func VerifC20_known_reopen_after_eviction() {
	c20Fixed = []int{0, 1, 2, 0}
	c20Run("csv", false, "csv")
	c20Fixed = nil
}

// A write to a target that fails (disk full, broken pipe — here: every (*os.File).Write from a
// symbolic call on) must be reported by WriteRecordAndContext or by Close: a target silently
// missing records it was routed is not "exactly the records routed to it".
//verif:opts engine-only maxpaths=100000
func VerifC20_write_failure_is_reported() {
	verifReplace("os.OpenFile", c20OpenFile)
	verifReplace("(*os.File).Write", c20Write)
	verifReplace("(*os.File).Close", c20Close)
	c20Content = map[string][]byte{}
	c20Handles = map[*os.File]string{}
	c20OpenCount, c20WriteCalls, c20WriteFailed = 0, 0, false
	c20FailWritesFrom = verifChoice("fail_writes_from", 4)
	names := []string{"t0", "t1", "t2"}
	mgr := NewFileOutputHandlerManager(c20Options("dkvp"), false)
	ctx := types.NewContext()
	reported := false
	for i := 0; i < 4; i++ {
		t := verifChoice("target", 3)
		if mgr.WriteRecordAndContext(types.NewRecordAndContext(c20Record(i), ctx), names[t]) != nil {
			reported = true
		}
	}
	if len(mgr.Close()) > 0 {
		reported = true
	}
	if c20WriteFailed {
		verifAssert(reported, "C20/failure/failed-write-to-a-target-is-reported")
	} else {
		verifAssert(!reported, "C20/failure/no-spurious-error")
	}
	c20FailWritesFrom = -1
	verifReach("C20/failure/end")
}

// C17 — the same obligation seen as error surfacing: a write to a tee/split/redirect target that
// fails is reported by the handler (Flush/Close errors are not masked)
//verif:opts engine-only maxpaths=100000
func VerifC17_redirect_target_write_failure_is_reported() { VerifC20_write_failure_is_reported() }
