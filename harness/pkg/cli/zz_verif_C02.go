//go:build verif

package cli

// C02 — the outcome depends only on which formats are selected, not on how the selection is spelled:
// every --X2Y keystroke-saver of the real FLAG_TABLE equals its two-flag expansion, and the
// auto-flatten / auto-unflatten decisions follow the documented rule.  The flag table is finite and
// is enumerated exhaustively (the statement's own quantifier).

var c02Letters = map[byte]string{'c': "csv", 't': "tsv", 'j': "json", 'l': "jsonl", 'd': "dkvp", 'n': "nidx",
	'x': "xtab", 'p': "pprint", 'b': "pprint", 'm': "markdown", 'y': "yaml"}

func c02ParseOne(args []string) (*TOptions, bool) {
	o := DefaultOptions()
	argi := 0
	for argi < len(args) {
		ok, err := FLAG_TABLE.Parse(args, len(args), &argi, o)
		if err != nil || !ok {
			return o, false
		}
	}
	if FinalizeReaderOptions(&o.ReaderOptions) != nil || FinalizeWriterOptions(&o.WriterOptions) != nil {
		return o, false
	}
	return o, true
}

// What a selection means to the rest of the program: which reader and writer are built and the
// separators those actually consume.  "jsonl" output is the JSON writer with the outer list and
// multi-line layout off (output.NewRecordWriterJSONLines); the JSON, YAML, DCF and markdown readers
// and the JSON/YAML/DCF writers take no separators ("N/A" in the per-format default tables; the
// markdown reader sets its own IFS), so those are not compared for them.
type c02Canon struct {
	ifmt, ofmt         string
	ifs, ips, irs      string
	repifs, ifsRegex   bool
	ofs, ops, ors      string
	wrap, multi, barred bool
	yamlWrap            bool
}

func c02Canonical(o *TOptions) c02Canon {
	var c c02Canon
	r, w := &o.ReaderOptions, &o.WriterOptions
	c.ifmt, c.ofmt = r.InputFileFormat, w.OutputFileFormat
	if defaultFSes[c.ifmt] != "N/A" && c.ifmt != "markdown" {
		c.ifs, c.repifs, c.ifsRegex = r.IFS, r.AllowRepeatIFS, r.IFSRegex != nil
	}
	if defaultPSes[c.ifmt] != "N/A" {
		c.ips = r.IPS
	}
	if defaultRSes[c.ifmt] != "N/A" {
		c.irs = r.IRS
	}
	c.wrap, c.multi = w.WrapJSONOutputInOuterList, w.JSONOutputMultiline
	if c.ofmt == "jsonl" {
		c.ofmt, c.wrap, c.multi = "json", false, false
	}
	if c.ofmt != "json" {
		c.wrap, c.multi = false, false
	}
	if defaultFSes[c.ofmt] != "N/A" {
		c.ofs = w.OFS
	}
	if defaultPSes[c.ofmt] != "N/A" {
		c.ops = w.OPS
	}
	if defaultRSes[c.ofmt] != "N/A" {
		c.ors = w.ORS
	}
	c.barred = w.BarredPprintOutput && c.ofmt == "pprint"
	c.yamlWrap = w.WrapYAMLOutputInOuterList && c.ofmt == "yaml"
	return c
}

func c02AssertSame(a, b c02Canon, what string) {
	verifAssert(a.ifmt == b.ifmt, "C02/"+what+"/same-reader")
	verifAssert(a.ofmt == b.ofmt && a.wrap == b.wrap && a.multi == b.multi && a.barred == b.barred && a.yamlWrap == b.yamlWrap, "C02/"+what+"/same-writer")
	verifAssert(a.ifs == b.ifs && a.ips == b.ips && a.irs == b.irs && a.repifs == b.repifs && a.ifsRegex == b.ifsRegex,
		"C02/"+what+"/same-input-separators")
	verifAssert(a.ofs == b.ofs && a.ops == b.ops && a.ors == b.ors, "C02/"+what+"/same-output-separators")
}

// every --X2Y keystroke-saver of the real table against "--i<X> --o<Y>" (+ --barred-output for 2b)
func VerifC02_keystroke_savers() {
	ins := "ctjldnxpmy"
	outs := "ctjldnxpbmy"
	x := ins[verifChoice("in", len(ins))]
	y := outs[verifChoice("out", len(outs))]
	name := "--" + string([]byte{x}) + "2" + string([]byte{y})
	found, _ := FLAG_TABLE.FlagTakesArg(name)
	if !found {
		verifReach("C02/savers/no-such-flag")
		return
	}
	a, ok := c02ParseOne([]string{name})
	verifAssert(ok, "C02/savers/parses")
	ifmt, ofmt := c02Letters[x], c02Letters[y]
	exp := []string{"--i" + ifmt, "--o" + ofmt}
	if y == 'b' {
		exp = append(exp, "--barred-output")
	}
	b, ok2 := c02ParseOne(exp)
	verifAssert(ok2, "C02/savers/expansion-parses")
	ca, cb := c02Canonical(a), c02Canonical(b)
	// the name says what is selected
	wantIn, wantOut := ifmt, ofmt
	if wantIn == "jsonl" {
		wantIn = "json" // JSON Lines is read by the JSON reader
	}
	if wantOut == "jsonl" {
		wantOut = "json"
		verifAssert(!ca.wrap && !ca.multi, "C02/savers/2l-writes-one-record-per-line")
	}
	verifAssert(ca.ifmt == wantIn, "C02/savers/input-format-is-what-the-name-says")
	verifAssert(ca.ofmt == wantOut, "C02/savers/output-format-is-what-the-name-says")
	verifAssert(ca.barred == (y == 'b'), "C02/savers/barred-only-for-2b")
	c02AssertSame(ca, cb, "savers")
	verifReach("C02/savers/end")
}

// -i X -o X / --io X / --iX --oX / --X are the same selection
func VerifC02_io_spellings() {
	fmts := []string{"csv", "csvlite", "tsv", "json", "jsonl", "dkvp", "nidx", "xtab", "pprint", "markdown", "md", "yaml", "dcf"}
	f := fmts[verifChoice("fmt", len(fmts))]
	a, ok1 := c02ParseOne([]string{"--i" + f, "--o" + f})
	b, ok2 := c02ParseOne([]string{"--io", f})
	c, ok3 := c02ParseOne([]string{"-i", f, "-o", f})
	d, ok4 := c02ParseOne([]string{"--" + f})
	e, ok5 := c02ParseOne([]string{"-i", f, "--o" + f})
	verifAssert(ok1 && ok2 && ok3 && ok4 && ok5, "C02/io/all-spellings-parse")
	ca := c02Canonical(a)
	want := f
	if want == "jsonl" {
		want = "json"
	}
	if want == "md" {
		want = "markdown"
	}
	verifAssert(ca.ifmt == want && ca.ofmt == want, "C02/io/format-is-what-the-name-says")
	for _, o := range []*TOptions{b, c, d, e} {
		c02AssertSame(c02Canonical(o), ca, "io")
	}
	verifReach("C02/io/end")
}

// auto-flatten iff the output format cannot nest; auto-unflatten iff the input cannot nest, the
// output can, and the chain does not end in flatten
func VerifC02_decide_flatten_unflatten() {
	fmts := []string{"csv", "csvlite", "tsv", "json", "jsonl", "yaml", "dkvp", "nidx", "xtab", "pprint", "markdown"}
	nest := func(f string) bool { return f == "json" || f == "jsonl" || f == "yaml" }
	ifmt := fmts[verifChoice("ifmt", len(fmts))]
	ofmt := fmts[verifChoice("ofmt", len(fmts))]
	o := DefaultOptions()
	o.ReaderOptions.InputFileFormat = ifmt
	o.WriterOptions.OutputFileFormat = ofmt
	o.WriterOptions.AutoFlatten = verifChoice("autoflatten", 2) == 1
	o.WriterOptions.AutoUnflatten = verifChoice("autounflatten", 2) == 1
	verbs := [][][]string{nil, {{"cat"}}, {{"cat"}, {"flatten"}}, {{"flatten"}, {"cat"}}}[verifChoice("chain", 4)]
	endsInFlatten := len(verbs) > 0 && verbs[len(verbs)-1][0] == "flatten"
	verifAssert(DecideFinalFlatten(&o.WriterOptions) == (o.WriterOptions.AutoFlatten && !nest(ofmt)), "C02/decide/flatten-iff-output-cannot-nest")
	verifAssert(DecideFinalUnflatten(o, verbs) == (o.WriterOptions.AutoUnflatten && !nest(ifmt) && nest(ofmt) && !endsInFlatten),
		"C02/decide/unflatten-iff-input-flat-output-nests-and-chain-does-not-end-in-flatten")
	verifReach("C02/decide/end")
}

// named separators: every documented alias (the table of reference-main-separators.md, copied here as
// the specification), given to any of the separator flags — the one-sided --ifs/--ofs/--ips/--ops/
// --irs/--ors and the two-sided --fs/--ps/--rs — selects exactly the separator its literal value
// selects, on every side the flag covers.
func VerifC02_separator_aliases() {
	type alias struct{ name, value string }
	aliases := []alias{
		{"ascii_esc", "\x1b"}, {"ascii_etx", "\x03"}, {"ascii_fs", "\x1c"}, {"ascii_gs", "\x1d"}, {"ascii_null", "\x00"},
		{"ascii_rs", "\x1e"}, {"ascii_soh", "\x01"}, {"ascii_stx", "\x02"}, {"ascii_us", "\x1f"}, {"asv_fs", "\x1f"}, {"asv_rs", "\x1e"},
		{"colon", ":"}, {"comma", ","}, {"cr", "\r"}, {"crcr", "\r\r"}, {"crlf", "\r\n"}, {"crlfcrlf", "\r\n\r\n"}, {"equals", "="},
		{"lf", "\n"}, {"lflf", "\n\n"}, {"newline", "\n"}, {"pipe", "|"}, {"semicolon", ";"}, {"space", " "}, {"tab", "\t"},
		{"usv_fs", "\xe2\x90\x9f"}, {"usv_rs", "\xe2\x90\x9e"},
	}
	a := aliases[verifChoice("alias", len(aliases))]
	flags := []string{"--ifs", "--ofs", "--ips", "--ops", "--irs", "--ors", "--fs", "--ps", "--rs"}
	flag := flags[verifChoice("flag", len(flags))]
	// DKVP uses all three kinds of separator on both sides
	byName, ok1 := c02ParseOne([]string{"--idkvp", "--odkvp", flag, a.name})
	verifAssert(ok1, "C02/aliases/alias-accepted")
	if !ok1 {
		return
	}
	r, w := &byName.ReaderOptions, &byName.WriterOptions
	switch flag {
	case "--ifs":
		verifAssert(r.IFS == a.value, "C02/aliases/input-side")
	case "--ofs":
		verifAssert(w.OFS == a.value, "C02/aliases/output-side")
	case "--ips":
		verifAssert(r.IPS == a.value, "C02/aliases/input-side")
	case "--ops":
		verifAssert(w.OPS == a.value, "C02/aliases/output-side")
	case "--irs":
		verifAssert(r.IRS == a.value, "C02/aliases/input-side")
	case "--ors":
		verifAssert(w.ORS == a.value, "C02/aliases/output-side")
	case "--fs":
		verifAssert(r.IFS == a.value && w.OFS == a.value, "C02/aliases/two-sided-flag-sets-both-sides")
	case "--ps":
		verifAssert(r.IPS == a.value && w.OPS == a.value, "C02/aliases/two-sided-flag-sets-both-sides")
	case "--rs":
		verifAssert(r.IRS == a.value && w.ORS == a.value, "C02/aliases/two-sided-flag-sets-both-sides")
	}
	verifReach("C02/aliases/end")
}
