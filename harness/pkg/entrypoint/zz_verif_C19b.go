//go:build verif

package entrypoint

// C19 — "on success each file equals what the same command without -I prints for that file alone
// (own head counts, own begin/end blocks)": driven from the real Main, in-place mode must give every
// file a transformer chain built for that file (a fresh ParseCommandLine), never the instances
// another file already went through.  Stubs: ParseCommandLine (returns a fresh chain object per
// call), stream.Stream (records which chain object each file was run through), a fault-free file
// system.  (Self-contained file: it must keep compiling when internal signatures change.)

import (
	"io"
	"io/fs"
	"os"
	"time"

	"github.com/johnkerl/miller/v6/pkg/cli"
	"github.com/johnkerl/miller/v6/pkg/transformers"
	"github.com/johnkerl/miller/v6/pkg/types"
)

type c19bVerb struct{ serial int }

func (v *c19bVerb) Transform(in *types.RecordAndContext, out *[]*types.RecordAndContext, idc <-chan bool, odc chan<- bool) error {
	*out = append(*out, in)
	return nil
}

var c19bParses, c19bStats, c19bTemps int
var c19bStreamed []int // serial of the chain object each Stream call received
var c19bFiles []string

func c19bParse(args []string) (*cli.TOptions, []transformers.RecordTransformer, error) {
	c19bParses++
	o := &cli.TOptions{DoInPlace: true, FileNames: []string{"d/a", "d/b", "d/c"}}
	return o, []transformers.RecordTransformer{&c19bVerb{serial: c19bParses}}, nil
}

func c19bStream(fileNames []string, options *cli.TOptions, trs []transformers.RecordTransformer, out io.WriteCloser, isStdout bool) error {
	c19bFiles = append(c19bFiles, fileNames...)
	if len(trs) == 1 {
		if v, ok := trs[0].(*c19bVerb); ok {
			c19bStreamed = append(c19bStreamed, v.serial)
		}
	}
	return nil
}

type c19bInfo struct{}

func (c19bInfo) Name() string       { return "f" }
func (c19bInfo) Size() int64        { return 1 }
func (c19bInfo) Mode() fs.FileMode  { return 0644 }
func (c19bInfo) ModTime() time.Time { return time.Time{} }
func (c19bInfo) IsDir() bool        { return false }
func (c19bInfo) Sys() any           { return nil }

//verif:opts engine-only
func VerifC19_main_gives_each_file_its_own_chain() {
	verifReplace("github.com/johnkerl/miller/v6/pkg/climain.ParseCommandLine", c19bParse)
	verifReplace("github.com/johnkerl/miller/v6/pkg/stream.Stream", c19bStream)
	verifReplace("os.Stat", func(name string) (os.FileInfo, error) { c19bStats++; return c19bInfo{}, nil })
	verifReplace("os.IsNotExist", func(err error) bool { return false }) // (package os is not initialised under the engine: its sentinel errors are nil)
	verifReplace("os.CreateTemp", func(dir, pattern string) (*os.File, error) { c19bTemps++; return &os.File{}, nil })
	verifReplace("(*os.File).Name", func(f *os.File) string { return "d/tmp" })
	verifReplace("(*os.File).Close", func(f *os.File) error { return nil })
	verifReplace("os.Remove", func(name string) error { return nil })
	verifReplace("os.Rename", func(from, to string) error { return nil })
	verifReplace("os.Chmod", func(name string, m os.FileMode) error { return nil })
	c19bParses, c19bStreamed, c19bFiles = 0, nil, nil
	os.Args = []string{"mlr", "-I", "cat", "d/a", "d/b", "d/c"}
	code := verifCatch(func() { Main() })
	verifObserveInt("code", int64(code))
	verifObserveInt("parses", int64(c19bParses))
	verifObserveInt("files", int64(len(c19bFiles)))
	verifObserveInt("stats", int64(c19bStats))
	verifObserveInt("temps", int64(c19bTemps))
	verifAssert(code == 0, "C19/main/success")
	verifAssert(len(c19bFiles) == 3 && c19bFiles[0] == "d/a" && c19bFiles[1] == "d/b" && c19bFiles[2] == "d/c", "C19/main/every-file-processed-alone-in-order")
	verifAssert(len(c19bStreamed) == 3, "C19/main/one-chain-per-file")
	if len(c19bStreamed) == 3 {
		verifAssert(c19bStreamed[0] != c19bStreamed[1] && c19bStreamed[1] != c19bStreamed[2] && c19bStreamed[0] != c19bStreamed[2],
			"C19/main/each-file-gets-a-freshly-built-chain")
	}
	verifReach("C19/main/end")
}
