//go:build verif

package entrypoint

import (
	"compress/gzip"
	"compress/zlib"
	"errors"
	"io"
	"io/fs"
	"os"
	"time"

	"github.com/johnkerl/miller/v6/pkg/cli"
	"github.com/johnkerl/miller/v6/pkg/lib"
	"github.com/johnkerl/miller/v6/pkg/transformers"
)


// ---- file-system stub: contents are abstract tokens
var fsFiles map[string]string // name -> "orig:<name>" | "new:<name>" | "partial" | ""
var fsTemp string
var fsTempOpen bool
var fsOps, fsCrash int64
var fsCurrent string // file being processed by the replaced Stream

func fsInvariant(where string) {
	for name, c := range fsFiles {
		if name == fsTemp {
			continue
		}
		verifAssert(c == "orig:"+name || c == "new:"+name, "C19/old-or-new@"+where)
	}
}
func fsStep(op string) { // every FS operation is a possible crash point
	if fsOps == fsCrash {
		fsInvariant("crash")
		verifReach("C19/crashed")
		verifStop()
	}
	fsOps++
}
func fail(name string) bool { return verifBool("fail_" + name) }

type fakeInfo struct{}

func (fakeInfo) Name() string       { return "f" }
func (fakeInfo) Size() int64        { return 1 }
func (fakeInfo) Mode() fs.FileMode  { return 0644 }
func (fakeInfo) ModTime() time.Time { return time.Time{} }
func (fakeInfo) IsDir() bool        { return false }
func (fakeInfo) Sys() any           { return nil }

var errNoEnt = errors.New("no such file")

func stubStat(name string) (os.FileInfo, error) {
	if _, ok := fsFiles[name]; !ok {
		return nil, errNoEnt
	}
	if fail("stat") {
		return nil, errors.New("stat failed")
	}
	return fakeInfo{}, nil
}
func stubIsNotExist(err error) bool { return err == errNoEnt }
func stubCreateTemp(dir, pattern string) (*os.File, error) {
	fsStep("createtemp")
	if fail("createtemp") {
		return nil, errors.New("createtemp failed")
	}
	fsTemp = dir + "/" + pattern + "XYZ"
	fsFiles[fsTemp] = ""
	fsTempOpen = true
	return &os.File{}, nil
}
func stubFileName(f *os.File) string { return fsTemp }
func stubFileClose(f *os.File) error {
	fsStep("close")
	fsTempOpen = false
	if fail("close") {
		return errors.New("close failed")
	}
	return nil
}
func stubRemove(name string) error {
	fsStep("remove")
	delete(fsFiles, name)
	return nil
}
func stubRename(from, to string) error {
	fsStep("rename")
	if fail("rename") {
		return errors.New("rename failed")
	}
	verifAssert(!fsTempOpen, "C19/rename-only-after-close")
	c := fsFiles[from]
	delete(fsFiles, from)
	fsFiles[to] = c // atomic replace
	return nil
}
func stubChmod(name string, m os.FileMode) error {
	fsStep("chmod")
	if fail("chmod") {
		chmodFailed = true
		return errors.New("chmod failed")
	}
	return nil
}

// the transformed stream: writes go to the handle it was given (the temp), in two steps, and may fail
func stubStream(fileNames []string, options *cli.TOptions, trs []transformers.RecordTransformer, out io.WriteCloser, isStdout bool) error {
	fsStep("write1")
	fsFiles[fsTemp] = "partial"
	if fail("stream") {
		return errors.New("data error")
	}
	fsStep("write2")
	if stubCompressed {
		// a recompressor sits between the stream and the temp file: the document is complete only
		// once the compressor's Close has written its last block and trailer
		fsFiles[fsTemp] = "new-without-trailer:" + fileNames[0]
	} else {
		fsFiles[fsTemp] = "new:" + fileNames[0]
	}
	return nil
}

// contract of gzip/zlib Writer.Close: one final write of the last block and trailer to the
// underlying handle (the temp file), whose failure is what Close returns
var stubCompressed bool

func stubCompressorClose() error {
	fsStep("compressor-close")
	if fail("compressor_close") {
		return errors.New("no space left on device")
	}
	if len(fsFiles[fsTemp]) > len("new-without-trailer:") && fsFiles[fsTemp][:len("new-without-trailer:")] == "new-without-trailer:" {
		fsFiles[fsTemp] = "new:" + fsFiles[fsTemp][len("new-without-trailer:"):]
	}
	return nil
}
func stubGzipClose(z *gzip.Writer) error { return stubCompressorClose() }
func stubZlibClose(z *zlib.Writer) error { return stubCompressorClose() }

var stubEncoding lib.TFileInputEncoding

func stubParseWithEncoding(args []string) (*cli.TOptions, []transformers.RecordTransformer, error) {
	parseCalls++
	o := &cli.TOptions{}
	o.ReaderOptions.FileInputEncoding = stubEncoding
	return o, nil, nil
}
var parseCalls int
var chmodFailed bool

func stubParse(args []string) (*cli.TOptions, []transformers.RecordTransformer, error) {
	parseCalls++
	return &cli.TOptions{}, nil, nil
}

// In-place mode over a file-system stub: every OS call may fail (symbolic Bool per call) and the
// process may die after any number of file-system operations (symbolic crash index).  At the crash
// state and at every return each named file holds its complete old or complete new content; later
// files are untouched; an error return leaves no temp file; rename is never issued before close.
// Stubs (the contract, engine-level only): os.Stat, os.IsNotExist, os.CreateTemp, (*os.File).Name,
// (*os.File).Close, os.Remove, os.Rename (atomic replace), os.Chmod, stream.Stream (two partial
// writes to the handle it was given, may fail in between), climain.ParseCommandLine (fresh options).
//verif:opts engine-only
func VerifC19_inplace() {
	verifReplace("os.Stat", stubStat)
	verifReplace("os.IsNotExist", stubIsNotExist)
	verifReplace("os.CreateTemp", stubCreateTemp)
	verifReplace("(*os.File).Name", stubFileName)
	verifReplace("(*os.File).Close", stubFileClose)
	verifReplace("os.Remove", stubRemove)
	verifReplace("os.Rename", stubRename)
	verifReplace("os.Chmod", stubChmod)
	verifReplace("github.com/johnkerl/miller/v6/pkg/stream.Stream", stubStream)
	verifReplace("github.com/johnkerl/miller/v6/pkg/climain.ParseCommandLine", stubParseWithEncoding)
	verifReplace("(*compress/gzip.Writer).Close", stubGzipClose)
	verifReplace("(*compress/zlib.Writer).Close", stubZlibClose)

	// how the input is encoded: plain; gzip by flag; zlib by flag; gzip by file-name suffix
	fa, fb := "d/a", "d/b"
	stubEncoding, stubCompressed = lib.FileInputEncodingDefault, false
	switch verifChoice("input_encoding", 4) {
	case 1:
		stubEncoding, stubCompressed = lib.FileInputEncodingGzip, true
	case 2:
		stubEncoding, stubCompressed = lib.FileInputEncodingZlib, true
	case 3:
		fa, fb, stubCompressed = "d/a.gz", "d/b.gz", true
	}
	fsFiles = map[string]string{fa: "orig:" + fa, fb: "orig:" + fb}
	fsTemp, fsTempOpen, fsOps, parseCalls, chmodFailed = "", false, 0, 0, false
	fsCrash = verifInt64("crash_after_ops")
	verifAssume(fsCrash >= 0 && fsCrash <= 24)
	opts := &cli.TOptions{FileNames: []string{fa, fb}}

	err := processFilesInPlace(opts)

	fsInvariant("return")
	if err != nil {
		_, tempLeft := fsFiles[fsTemp]
		verifAssert(fsTemp == "" || !tempLeft || chmodFailed, "C19/no-temp-left-on-error-return")
		if fsFiles[fa] == "orig:"+fa {
			verifAssert(fsFiles[fb] == "orig:"+fb, "C19/later-files-untouched")
		}
		verifReach("C19/error-return")
	} else {
		verifAssert(fsFiles[fa] == "new:"+fa && fsFiles[fb] == "new:"+fb, "C19/success-all-new")
		_, tempLeft := fsFiles[fsTemp]
		verifAssert(!tempLeft, "C19/no-temp-left-on-success")
		verifAssert(parseCalls == 2, "C19/fresh-options-per-file")
		verifReach("C19/success")
	}
}

var stubPrepipe string

func stubParseWithPrepipe(args []string) (*cli.TOptions, []transformers.RecordTransformer, error) {
	parseCalls++
	o := &cli.TOptions{}
	o.ReaderOptions.Prepipe = stubPrepipe
	o.ReaderOptions.FileInputEncoding = stubEncoding
	return o, nil, nil
}

// inputs that cannot be updated in place (URLs, prepipes, bzip2) are refused with every named file
// still holding its original bytes and no temp file left; with any OS-call failure and crash point.
//verif:opts engine-only
func VerifC19_refusals() {
	verifReplace("os.Stat", stubStat)
	verifReplace("os.IsNotExist", stubIsNotExist)
	verifReplace("os.CreateTemp", stubCreateTemp)
	verifReplace("(*os.File).Name", stubFileName)
	verifReplace("(*os.File).Close", stubFileClose)
	verifReplace("os.Remove", stubRemove)
	verifReplace("os.Rename", stubRename)
	verifReplace("os.Chmod", stubChmod)
	verifReplace("github.com/johnkerl/miller/v6/pkg/stream.Stream", stubStream)
	verifReplace("github.com/johnkerl/miller/v6/pkg/climain.ParseCommandLine", stubParseWithPrepipe)

	// URLs, a .bz2 name, a prepipe, and bzip2 announced by the --bz2in flag on an ordinary name
	names := []string{"http://h/a", "https://h/a", "file://d/a", "d/a.bz2", "d/a", "d/a"}
	which := verifChoice("input", len(names))
	name := names[which]
	stubPrepipe, stubEncoding, stubCompressed = "", lib.FileInputEncodingDefault, false
	if which == 4 {
		stubPrepipe = "gunzip <"
	}
	if which == 5 {
		stubEncoding = lib.FileInputEncodingBzip2
	}
	fsFiles = map[string]string{name: "orig:" + name, "d/b": "orig:d/b"}
	fsTemp, fsTempOpen, fsOps, parseCalls, chmodFailed = "", false, 0, 0, false
	fsCrash = verifInt64("crash_after_ops")
	verifAssume(fsCrash >= 0 && fsCrash <= 20)
	opts := &cli.TOptions{FileNames: []string{name, "d/b"}}

	err := processFilesInPlace(opts)

	verifAssert(err != nil, "C19/refusal/non-updatable-input-is-an-error")
	verifAssert(fsFiles[name] == "orig:"+name && fsFiles["d/b"] == "orig:d/b", "C19/refusal/nothing-modified")
	_, tempLeft := fsFiles[fsTemp]
	verifAssert(fsTemp == "" || !tempLeft, "C19/refusal/no-temp-left")
	verifReach("C19/refusal/end")
}
