//go:build verif

package cst

// C09 — the DSL sort function with flag strings orders the same way as the sort verb: for every
// pair of two-byte ASCII strings (symbolic) and each flag family (lexical f, case-folded c,
// numeric/collating n; ascending and reversed) the real sortA puts the pair in the order the
// verb's comparator (mlrval.*Comparator, the ones transformers/sort.go installs for -f/-c/-nf and
// their -r forms) says; equal-ranking pairs keep their input order.

import (
	"github.com/johnkerl/miller/v6/pkg/mlrval"
)

func VerifC09_function_flags_order_like_the_verb() {
	sa := verifString("a", 2)
	sb := verifString("b", 2)
	for i := 0; i < 2; i++ {
		verifAssume(sa[i] < 0x80 && sb[i] < 0x80) // ASCII: case folding of other scripts is the Go library's
	}
	a, b := mlrval.FromString(sa), mlrval.FromString(sb)
	type fam struct {
		flags string
		cmp   func(x, y *mlrval.Mlrval) int
	}
	fams := []fam{
		{"f", mlrval.LexicalAscendingComparator},
		{"fr", mlrval.LexicalDescendingComparator},
		{"c", mlrval.CaseFoldAscendingComparator},
		{"cr", mlrval.CaseFoldDescendingComparator},
		{"n", mlrval.NumericAscendingComparator},
		{"nr", mlrval.NumericDescendingComparator},
	}
	f := fams[verifChoice("flags", len(fams))]
	out := sortA(mlrval.FromArray([]*mlrval.Mlrval{a, b}), f.flags)
	verifAssert(out.IsArray(), "C09/dsl-vs-verb/array")
	arr := out.AcquireArrayValue()
	verifAssert(len(arr) == 2, "C09/dsl-vs-verb/permutation-size")
	if len(arr) != 2 {
		return
	}
	c := f.cmp(a, b)
	first, second := arr[0].String(), arr[1].String()
	if c <= 0 {
		verifAssert(first == sa && second == sb, "C09/dsl-vs-verb/function-keeps-the-order-the-verb-would")
	} else {
		verifAssert(first == sb && second == sa, "C09/dsl-vs-verb/function-swaps-where-the-verb-would")
	}
	verifReach("C09/dsl-vs-verb/end")
}
