//go:build verif

package cst

// C18(i) — every built-in function or operator applied to every combination of argument kinds
// either returns a value or an error value: no Go panic, no runaway loop.  The function pointers
// are taken from the real lookup table (makeBuiltinFunctionLookupTable); ints and floats are fully
// symbolic (so zero divisors, MinInt64, huge lengths/indices, NaN/Inf are all inside one query);
// strings come from a palette (text-consuming callees — regex, printf and time layouts — need
// concrete text).  The assertions are the engine's implicit ones (bounds, nil, division, shifts,
// allocation size, explicit panic, step budget).

import (
	"github.com/johnkerl/miller/v6/pkg/mlrval"
)

var c18Palette = []string{"abc", "5", "%08.3lf", "(", "2023-01-01T00:00:00Z"}

// operand variants: 0 int, 1 float, 2 bool, 3 empty, 4..8 strings, 9 bytes, 10 array, 11 map, 12 func, 13 error, 14 null, 15 absent
const c18NVariants = 16

// time-class functions divide symbolic epoch seconds by calendar constants, which no back end
// decides within the cap: for them ints come from a boundary palette (concrete execution of the
// real code under the engine; stated in the evidence as not solver-decided).
var c18ConcreteInts = false

func c18Operand(v int, tag string) *mlrval.Mlrval {
	switch {
	case v == 0:
		if c18ConcreteInts {
			is := []int64{0, -1, 1700000000, 9223372036854775807, -9223372036854775808}
			return mlrval.FromInt(is[verifChoice(tag+"_i", len(is))])
		}
		return mlrval.FromInt(verifInt64(tag + "_i"))
	case v == 1:
		// boundary floats (concrete: the float library kernels are not the subject here)
		fs := []float64{0.0, -1.5, 1e30, c18NaN(), c18Inf()}
		return mlrval.FromFloat(fs[verifChoice(tag+"_f", len(fs))])
	case v == 2:
		return mlrval.FromBool(verifBool(tag + "_b"))
	case v == 3:
		return mlrval.VOID
	case v >= 4 && v <= 8:
		return mlrval.FromString(c18Palette[v-4])
	case v == 9:
		return mlrval.FromBytes([]byte{0xff, 0x41})
	case v == 10:
		return mlrval.FromArray([]*mlrval.Mlrval{mlrval.FromInt(7), mlrval.FromString("x")})
	case v == 11:
		m := mlrval.NewMlrmap()
		m.PutReference("k", mlrval.FromInt(7))
		m.PutReference("3", mlrval.FromString("v"))
		return mlrval.FromMap(m)
	case v == 12:
		return mlrval.FromFunction(func() {}, "f")
	case v == 13:
		return mlrval.FromAnonymousError()
	case v == 14:
		return mlrval.NULL
	}
	return mlrval.ABSENT
}

func c18NaN() float64 { z := 0.0; return z / z }
func c18Inf() float64 { z := 0.0; return 1 / z }

// functions that reach the host (processes, clock, random numbers, time-zone files, environment)
// are outside the claim: their OS boundary is not modelled.
var c18Skip = map[string]bool{"system": true, "exec": true, "os_type": true, "hostname": true, "version": true,
	"systime": true, "systimeint": true, "sysntime": true, "uptime": true, "urand": true, "urandint": true, "urand32": true,
	"urandrange": true, "urandelement": true,
	// library digests and the reflection-based JSON decoder: outside the claim (DESIGN.md §5)
	"md5": true, "sha1": true, "sha256": true, "sha512": true, "crc32": true, "json_decode": true, "json_parse": true, "stat": true,
	// operators evaluated by dedicated short-circuiting CST nodes; their table entries are never called
	"&&": true, "||": true, "??": true, "???": true, "?:": true,
	// time-zone database access (files, TZ environment)
	"localtime2gmt": true, "gmt2localtime": true, "localtime2sec": true, "localtime2nsec": true}

func c18SkipName(name string) bool {
	if c18Skip[name] {
		return true
	}
	for i := 0; i+5 <= len(name); i++ {
		if name[i:i+5] == "local" {
			return true
		}
	}
	return false
}

func c18Begin(info *BuiltinFunctionInfo) {
	verifObserveStr("fn", info.name)
	verifAllowOpaqueCut()
	// mexp: one fork per exponent bit (2^64 paths) — boundary palette there as well; its exactness for
	// bounded exponents is C07's
	// "*" and "**": the overflow tests are 128-bit products, decided for all int64 pairs in C07 with a
	// longer cap; under this check's short cap the query is load-sensitive, so boundary palette here
	c18ConcreteInts = info.class == FUNC_CLASS_TIME || info.name == "mexp" || info.name == "mmul" ||
		info.name == "percentile" || info.name == "percentiles" || info.name == "median" ||
		info.name == "*" || info.name == "**"
}

// the real table, as built once by the package initialiser
func c18Table() []BuiltinFunctionInfo { return *BuiltinFunctionManagerInstance.lookupTable }

func c18Result(out *mlrval.Mlrval, name string) {
	verifAssert(out != nil, "C18/"+name+"/returns-a-value")
	verifReach("C18/bifs/end")
}

//verif:opts maxpaths=400000 unwind=40 maxsteps=3000000 cap=3000 samples=4
func VerifC18_unary() {
	tbl := c18Table()
	i := verifChoice("fn", len(tbl))
	info := tbl[i]
	if info.unaryFunc == nil || c18SkipName(info.name) {
		verifReach("C18/bifs/skip")
		return
	}
	c18Begin(&info)
	v := verifChoice("k1", c18NVariants)
	c18Result(info.unaryFunc(c18Operand(v, "a")), info.name)
}

//verif:opts maxpaths=400000 unwind=40 maxsteps=3000000 cap=3000 samples=0
func VerifC18_binary() {
	tbl := c18Table()
	i := verifChoice("fn", len(tbl))
	info := tbl[i]
	if info.binaryFunc == nil || c18SkipName(info.name) {
		verifReach("C18/bifs/skip")
		return
	}
	c18Begin(&info)
	v1 := verifChoice("k1", c18NVariants)
	v2 := verifChoice("k2", c18NVariants)
	c18Result(info.binaryFunc(c18Operand(v1, "a"), c18Operand(v2, "b")), info.name)
}

// arity 3 over a subset of variants (int, float, empty, "abc", "5", array, map, absent)
//verif:opts maxpaths=400000 unwind=40 maxsteps=3000000 cap=3000 samples=0
func VerifC18_ternary() {
	tbl := c18Table()
	i := verifChoice("fn", len(tbl))
	info := tbl[i]
	if info.ternaryFunc == nil || c18SkipName(info.name) {
		verifReach("C18/bifs/skip")
		return
	}
	c18Begin(&info)
	sub := []int{0, 1, 3, 4, 5, 10, 11, 15}
	v1 := sub[verifChoice("k1", len(sub))]
	v2 := sub[verifChoice("k2", len(sub))]
	v3 := sub[verifChoice("k3", len(sub))]
	c18Result(info.ternaryFunc(c18Operand(v1, "a"), c18Operand(v2, "b"), c18Operand(v3, "c")), info.name)
}

// variadic functions with 0..3 arguments over the same subset
//verif:opts maxpaths=400000 unwind=40 maxsteps=3000000 cap=3000 samples=0
func VerifC18_variadic() {
	tbl := c18Table()
	i := verifChoice("fn", len(tbl))
	info := tbl[i]
	if info.variadicFunc == nil || c18SkipName(info.name) {
		verifReach("C18/bifs/skip")
		return
	}
	c18Begin(&info)
	sub := []int{0, 1, 3, 4, 5, 10, 11, 15}
	n := verifChoice("nargs", 4)
	if info.minimumVariadicArity > n || (info.maximumVariadicArity != 0 && n > info.maximumVariadicArity) {
		verifReach("C18/bifs/skip")
		return
	}
	args := make([]*mlrval.Mlrval, n)
	for k := 0; k < n; k++ {
		args[k] = c18Operand(sub[verifChoice("k", len(sub))], "a")
	}
	c18Result(info.variadicFunc(args), info.name)
}

// percentile / percentiles / median with an options map: every option key x every value kind
//verif:opts maxpaths=100000 unwind=40 cap=3000 samples=2
func VerifC18_percentile_options() {
	keys := []string{"oa", "output_array_not_map", "il", "interpolate_linearly", "ais", "array_is_sorted", "bogus"}
	vals := []*mlrval.Mlrval{mlrval.TRUE, mlrval.FALSE, mlrval.FromInt(1), mlrval.FromString("x"), mlrval.VOID}
	opts := mlrval.NewMlrmap()
	opts.PutReference(keys[verifChoice("key", len(keys))], vals[verifChoice("val", len(vals))])
	if verifChoice("two", 2) == 1 {
		opts.PutReference(keys[verifChoice("key2", len(keys))], vals[verifChoice("val2", len(vals))])
	}
	var coll *mlrval.Mlrval
	switch verifChoice("coll", 3) {
	case 0:
		coll = mlrval.FromArray([]*mlrval.Mlrval{mlrval.FromInt(3), mlrval.FromInt(1), mlrval.FromInt(2)})
	case 1:
		coll = mlrval.FromEmptyArray()
	case 2:
		m := mlrval.NewMlrmap()
		m.PutReference("k", mlrval.FromInt(5))
		coll = mlrval.FromMap(m)
	}
	p := mlrval.FromInt([]int64{50, 250, -1}[verifChoice("p", 3)]) // the index arithmetic for symbolic p is C10's
	tbl := c18Table()
	names := []string{"percentile", "percentiles", "median"}
	name := names[verifChoice("fn", 3)]
	verifAllowOpaqueCut()
	for i := range tbl {
		if tbl[i].name != name {
			continue
		}
		switch name {
		case "percentile":
			if tbl[i].ternaryFunc != nil {
				c18Result(tbl[i].ternaryFunc(coll, p, mlrval.FromMap(opts)), name)
			}
		case "percentiles":
			if tbl[i].ternaryFunc != nil {
				c18Result(tbl[i].ternaryFunc(coll, mlrval.FromArray([]*mlrval.Mlrval{p, mlrval.FromInt(50)}), mlrval.FromMap(opts)), name)
			}
		case "median":
			if tbl[i].binaryFunc != nil {
				c18Result(tbl[i].binaryFunc(coll, mlrval.FromMap(opts)), name)
			}
		}
	}
	verifReach("C18/bifs/end")
}
