//go:build verif

package transformers

// Lemmas on the real chain plumbing (runSingleTransformerBatch), shared by C04 and C17, with the
// verb an arbitrary stub: k outputs per input (symbolic 0..2), failing at a symbolic item.

import (
	"errors"

	"github.com/johnkerl/miller/v6/pkg/cli"
	"github.com/johnkerl/miller/v6/pkg/mlrval"
	"github.com/johnkerl/miller/v6/pkg/types"
)

type c04StubVerb struct {
	failAt  int // index of the Transform call that fails (-1: never)
	calls   int
	emitted []*types.RecordAndContext // everything the verb appended, in order
	sawEOS  bool
}

func (v *c04StubVerb) Transform(in *types.RecordAndContext, out *[]*types.RecordAndContext, idc <-chan bool, odc chan<- bool) error {
	me := v.calls
	v.calls++
	if in.EndOfStream {
		v.sawEOS = true
	}
	if me == v.failAt {
		return errors.New("verb failed")
	}
	if in.EndOfStream {
		*out = append(*out, in)
		v.emitted = append(v.emitted, in)
		return nil
	}
	k := verifChoice("k_outputs", 3)
	for j := 0; j < k; j++ {
		r := types.NewRecordAndContext(mlrval.NewMlrmapAsRecord(), &in.Context)
		*out = append(*out, r)
		v.emitted = append(v.emitted, r)
	}
	return nil
}

func c04PlumbingDriver(checkErrorOrder bool) {
	n := 1 + verifChoice("batch_len", 3)
	ctx := types.NewContext()
	var batch []*types.RecordAndContext
	eosAt := -1
	for i := 0; i < n; i++ {
		switch verifChoice("item", 3) {
		case 0:
			batch = append(batch, types.NewRecordAndContext(mlrval.NewMlrmapAsRecord(), ctx))
		case 1:
			batch = append(batch, types.NewOutputString("printed\n", ctx))
		case 2:
			batch = append(batch, types.NewEndOfStreamMarker(ctx))
			if eosAt < 0 {
				eosAt = i
			}
		}
	}
	verb := &c04StubVerb{failAt: verifChoice("fail_at", n+1) - 1}
	outch := make(chan []*types.RecordAndContext, 4)
	errch := make(chan error, 1)
	idc, odc := make(chan bool, 1), make(chan bool, 1)
	otherErrFirst := verifChoice("other_error_already_posted", 2) == 1
	if otherErrFirst {
		errch <- errors.New("earlier error from another stage")
	}
	done, err := runSingleTransformerBatch(batch, verb, true, outch, idc, odc, errch, &cli.TOptions{})

	verifAssert(len(outch) == 1, "C04/plumbing/exactly-one-batch-forwarded")
	if len(outch) != 1 {
		return
	}
	seqOut := verifChanSeq(outch)
	fwd := <-outch
	// what must have been forwarded: verb outputs and print-strings in input order, up to EOS/failure
	var want []*types.RecordAndContext
	vi := 0 // next verb output
	failed := false
	calls := 0
	for i := 0; i < n && !failed; i++ {
		it := batch[i]
		if it.EndOfStream || it.Record != nil {
			if calls == verb.failAt {
				failed = true
				break
			}
			calls++
			// the outputs of this call are the next ones in verb.emitted belonging to it; the stub
			// appends directly, so the forwarded slice must contain them at this position
			for vi < len(verb.emitted) && len(want) < len(fwd) && fwd[len(want)] == verb.emitted[vi] {
				want = append(want, verb.emitted[vi])
				vi++
			}
			if it.EndOfStream {
				break
			}
		} else {
			want = append(want, it)
		}
	}
	if err == nil {
		verifAssert(!failed, "C04/plumbing/error-reported-when-verb-fails")
		verifAssert(len(fwd) == len(want), "C04/plumbing/forwarded-length")
		for i := 0; i < len(want) && i < len(fwd); i++ {
			verifAssert(fwd[i] == want[i], "C04/plumbing/forwarded-in-order-strings-in-place")
		}
		verifAssert(vi == len(verb.emitted), "C04/plumbing/every-verb-output-forwarded-once")
		verifAssert(done == (eosAt >= 0), "C04/plumbing/done-iff-eos")
		// EOS forwarded at most once and last
		for i := 0; i < len(fwd); i++ {
			if fwd[i].EndOfStream {
				verifAssert(i == len(fwd)-1, "C04/plumbing/nothing-after-eos")
			}
		}
		if eosAt >= 0 {
			verifAssert(len(fwd) > 0 && fwd[len(fwd)-1].EndOfStream, "C04/plumbing/eos-forwarded-last")
		}
	} else {
		verifAssert(failed, "C17/post/no-spurious-error")
		verifAssert(done, "C17/post/failed-batch-ends-the-stream")
		// an error is buffered for the main loop, and it was buffered BEFORE the batch carrying the
		// end-of-stream marker was forwarded (or an earlier error was already there)
		verifAssert(len(errch) == 1, "C17/post/error-is-buffered")
		if checkErrorOrder && !otherErrFirst {
			verifAssert(verifChanSeq(errch) < seqOut, "C17/post/error-buffered-before-eos-forwarded")
		}
		verifAssert(len(fwd) > 0 && fwd[len(fwd)-1].EndOfStream, "C17/post/eos-follows-so-downstream-drains")
		for i := 0; i+1 < len(fwd); i++ {
			verifAssert(!fwd[i].EndOfStream, "C17/post/single-eos")
		}
	}
	verifReach("C04/plumbing/end")
}

//verif:opts engine-only maxpaths=100000
func VerifC04_plumbing() { c04PlumbingDriver(false) }

//verif:opts engine-only maxpaths=100000
func VerifC17_post_before_eos() { c04PlumbingDriver(true) }

// L-done-nonblocking for `head`: the upstream done-channel has capacity 1 and its receiver (the
// record reader, or the verb upstream) may already have stopped polling; the downstream flag may
// arrive at any poll (symbolic).  Over any history of 3 Transform calls no back-signal send may
// block: a goroutine blocked forever on a done-channel is how a chain such as
// `head -n 4 then head -n 2` hangs.
//verif:opts engine-only
func VerifC04_head_done_nonblocking() {
	k := verifInt64("headcount")
	verifAssume(k >= 0 && k <= 3)
	tr, _ := NewTransformerHead(k, nil)
	idchan := make(chan bool, 1)
	odchan := make(chan bool, 1)
	verifChanName(idchan, "input-downstream-done")
	verifChanName(odchan, "output-downstream-done (receiver no longer polling)")
	verifChanMaybe(idchan, true) // the downstream verb's flag, arriving at a symbolic poll
	out := []*types.RecordAndContext{}
	ctx := types.NewContext()
	for i := 0; i < 3; i++ {
		rac := types.NewRecordAndContext(mlrval.NewMlrmapAsRecord(), ctx)
		tr.Transform(rac, &out, idchan, odchan)
	}
	verifReach("C04/head-done/end")
}

// the same for a verb using the default relay only (cat): at most one relay per arrival
//verif:opts engine-only
func VerifC04_default_relay_nonblocking() {
	tr, _ := NewTransformerCat(false, "", nil, false, false)
	idchan := make(chan bool, 1)
	odchan := make(chan bool, 1)
	verifChanName(idchan, "input-downstream-done")
	verifChanName(odchan, "output-downstream-done (receiver no longer polling)")
	verifChanMaybe(idchan, true)
	out := []*types.RecordAndContext{}
	ctx := types.NewContext()
	for i := 0; i < 3; i++ {
		rac := types.NewRecordAndContext(mlrval.NewMlrmapAsRecord(), ctx)
		tr.Transform(rac, &out, idchan, odchan)
	}
	verifReach("C04/relay-done/end")
}
