//go:build verif

package transformers

// C14 at the DSL level — a template suite of programs run through the REAL put verb (real CST
// builder on the pre-parsed AST, real evaluator, real runtime.State/Stack) on a record whose field x
// is a symbolic int in [-2, 6] (so which branches and how many loop turns are taken is decided by
// the solver per path); each template has a reference result written from the documented semantics
// in plain Go.  The input record is a=g, b=<3>, x=<symbolic>, c=<5>.

import (
	"github.com/johnkerl/miller/v6/pkg/mlrval"
	"github.com/johnkerl/miller/v6/pkg/types"
)

// one record through the verb; err is set when Transform returns an error or the program ends the
// process with a non-zero exit (how some run-time type errors are reported)
func c14RunErr(tr *TransformerPut, rec *mlrval.Mlrmap) c14Out {
	var o c14Out
	code := verifCatch(func() {
		ctx := types.NewContext()
		idc, odc := make(chan bool, 1), make(chan bool, 8)
		out := []*types.RecordAndContext{}
		if tr.Transform(types.NewRecordAndContext(rec, ctx), &out, idc, odc) != nil {
			o.err = true
			return
		}
		for _, rac := range out {
			if rac.Record != nil {
				o.recs = append(o.recs, rac.Record)
			}
		}
	})
	if code != 0 {
		o.err = true
	}
	return o
}

type c14Out struct {
	recs []*mlrval.Mlrmap
	err  bool
}

func c14Str(r *mlrval.Mlrmap, k string) (string, bool) {
	v := r.Get(k)
	if v == nil {
		return "", false
	}
	return v.String(), true
}

func c14Int(r *mlrval.Mlrmap, k string) (int64, bool) {
	v := r.Get(k)
	if v == nil {
		return 0, false
	}
	return v.GetIntValue()
}

func c14Keys(r *mlrval.Mlrmap) string {
	s := ""
	for pe := r.Head; pe != nil; pe = pe.Next {
		if s != "" {
			s += ","
		}
		s += pe.Key
	}
	return s
}

func c14IntIs(r *mlrval.Mlrmap, k string, want int64, label string) {
	got, ok := c14Int(r, k)
	verifAssert(ok && got == want, label)
}

func c14Absent(r *mlrval.Mlrmap, k string, label string) {
	verifAssert(r.Get(k) == nil, label)
}

type c14Template struct {
	dsl   string
	check func(x int64, r *mlrval.Mlrmap)
}

func c14Templates() []c14Template {
	return []c14Template{
		// block scoping: an inner var shadows, the outer binding is untouched
		{verifDSL(`var a = 1; if ($x > 0) { var a = 2; $inner = a } $outer = a`), func(x int64, r *mlrval.Mlrmap) {
			c14IntIs(r, "outer", 1, "C14/dsl/scope/outer-binding-untouched-by-inner-var")
			if x > 0 {
				c14IntIs(r, "inner", 2, "C14/dsl/scope/inner-var-shadows")
			} else {
				c14Absent(r, "inner", "C14/dsl/scope/branch-not-taken")
			}
		}},
		// undeclared assignment updates the nearest enclosing binding
		{verifDSL(`var a = 1; if ($x > 0) { if ($x > 2) { a = 5 } else { a = 4 } } $a = a`), func(x int64, r *mlrval.Mlrmap) {
			want := int64(1)
			if x > 2 {
				want = 5
			} else if x > 0 {
				want = 4
			}
			c14IntIs(r, "a", want, "C14/dsl/scope/undeclared-assignment-updates-nearest-enclosing-binding")
		}},
		// ... and without an enclosing binding it is local to the block it is in
		{verifDSL(`if ($x > 0) { q = 7; $in = q } $out = q`), func(x int64, r *mlrval.Mlrmap) {
			c14Absent(r, "out", "C14/dsl/scope/block-local-not-visible-outside")
			if x > 0 {
				c14IntIs(r, "in", 7, "C14/dsl/scope/block-local-visible-inside")
			}
		}},
		// for loop with continue and break
		{verifDSL(`s = 0; for (i = 0; i < 6; i += 1) { if (i == $x) {continue} if (i == 4) {break} s += i } $s = s`), func(x int64, r *mlrval.Mlrmap) {
			s := int64(0)
			for i := int64(0); i < 6; i++ {
				if i == x {
					continue
				}
				if i == 4 {
					break
				}
				s += i
			}
			c14IntIs(r, "s", s, "C14/dsl/loop/for-with-break-and-continue")
		}},
		// while and do-while with a data-dependent bound
		{verifDSL(`n = 0; i = $x; while (i > 0) { n += i; i -= 1 } m = 0; j = $x; do { m += 1; j -= 2 } while (j > 0); $n = n; $m = m`), func(x int64, r *mlrval.Mlrmap) {
			n := int64(0)
			for i := x; i > 0; i-- {
				n += i
			}
			m := int64(0)
			j := x
			for {
				m++
				j -= 2
				if !(j > 0) {
					break
				}
			}
			c14IntIs(r, "n", n, "C14/dsl/loop/while")
			c14IntIs(r, "m", m, "C14/dsl/loop/do-while-runs-at-least-once")
		}},
		// key-value for loop over a map literal; loop variables are scoped to the loop
		{verifDSL(`t = 0; for (k, v in {"p": 1, "q": $x, "r": 3}) { if (k == "q") { t += 10 * v } else { t += v } } $t = t; $k = k`), func(x int64, r *mlrval.Mlrmap) {
			c14IntIs(r, "t", 4+10*x, "C14/dsl/loop/for-key-value-in-insertion-order")
			c14Absent(r, "k", "C14/dsl/loop/loop-variable-scoped-to-the-loop")
		}},
		// multi-key for loop over a nested map: break leaves the whole loop, continue skips one leaf
		{verifDSL(`s = 0; for ((k1, k2), v in {"a": {"x": 1, "y": 2}, "b": {"x": 3, "y": 4}}) { if (v == $x) {break} s += v } t = 0; for ((k1, k2), v in {"a": {"x": 1, "y": 2}, "b": {"x": 3, "y": 4}}) { if (v == $x) {continue} t += v } $s = s; $t = t`), func(x int64, r *mlrval.Mlrmap) {
			s, t := int64(0), int64(0)
			broke := false
			for v := int64(1); v <= 4; v++ {
				if v == x {
					broke = true
				}
				if !broke {
					s += v
				}
				if v != x {
					t += v
				}
			}
			c14IntIs(r, "s", s, "C14/dsl/loop/multi-key-for-break-leaves-the-whole-loop")
			c14IntIs(r, "t", t, "C14/dsl/loop/multi-key-for-continue-skips-one-leaf")
		}},
		// recursion and return
		{verifDSL(`func f(n) { if (n <= 1) {return 1} return n * f(n-1) } $y = f($x)`), func(x int64, r *mlrval.Mlrmap) {
			f := int64(1)
			for i := int64(2); i <= x; i++ {
				f *= i
			}
			c14IntIs(r, "y", f, "C14/dsl/func/recursion")
		}},
		// arguments are passed by value
		{verifDSL(`func g(m) { m[1] = 99; return m[1] } m = {}; m[1] = $x; $r = g(m); $k = m[1]`), func(x int64, r *mlrval.Mlrmap) {
			c14IntIs(r, "r", 99, "C14/dsl/func/callee-sees-its-own-copy")
			c14IntIs(r, "k", x, "C14/dsl/func/arguments-are-passed-by-value")
		}},
		// a parameter assigned inside a nested block of the function body
		{verifDSL(`func absval(n) { if (n < 0) { n = -n } return n } $y = absval($x)`), func(x int64, r *mlrval.Mlrmap) {
			want := x
			if x < 0 {
				want = -x
			}
			c14IntIs(r, "y", want, "C14/dsl/func/parameter-assigned-in-nested-block")
		}},
		// subroutine with call; out-of-stream variable written inside
		{verifDSL(`subr bump(by) { @t += by } call bump($x); call bump(1); $t = @t`), func(x int64, r *mlrval.Mlrmap) {
			c14IntIs(r, "t", x+1, "C14/dsl/subr/call")
		}},
		// new fields are appended, reassigned fields keep their position
		{verifDSL(`$b = $x; $new = 1; $a = "h"`), func(x int64, r *mlrval.Mlrmap) {
			verifAssert(c14Keys(r) == "a,b,x,c,new", "C14/dsl/fields/new-appended-reassigned-keep-position")
			c14IntIs(r, "b", x, "C14/dsl/fields/reassigned-value")
		}},
		// positional names and values
		{verifDSL(`$[[2]] = "B"; $[[[3]]] = 7`), func(x int64, r *mlrval.Mlrmap) {
			verifAssert(c14Keys(r) == "a,B,x,c", "C14/dsl/fields/positional-name-renames-in-place")
			c14IntIs(r, "B", 3, "C14/dsl/fields/positional-rename-keeps-value")
			c14IntIs(r, "x", 7, "C14/dsl/fields/positional-value-assigns-in-place")
		}},
		// unset of a field, of a map element and of a local
		{verifDSL(`unset $b; m = {"p": 1, "q": 2}; unset m["p"]; $n = length(m); var l = 3; unset l; $l = l`), func(x int64, r *mlrval.Mlrmap) {
			verifAssert(c14Keys(r) == "a,x,c,n", "C14/dsl/unset/field-removed-others-keep-order-and-absent-local-not-assigned")
			c14IntIs(r, "n", 1, "C14/dsl/unset/map-element")
		}},
		// 1-up indexing, negative aliases, inclusive slices
		{verifDSL(`a = [10, 20, 30, 40]; $first = a[1]; $last = a[-1]; $sl = length(a[2:3]); $s1 = a[2:3][1]; $s2 = a[-2:-1][2]`), func(x int64, r *mlrval.Mlrmap) {
			c14IntIs(r, "first", 10, "C14/dsl/index/one-up")
			c14IntIs(r, "last", 40, "C14/dsl/index/negative-alias")
			c14IntIs(r, "sl", 2, "C14/dsl/index/slice-is-inclusive")
			c14IntIs(r, "s1", 20, "C14/dsl/index/slice-content")
			c14IntIs(r, "s2", 40, "C14/dsl/index/negative-slice")
		}},
		// data-dependent index: in range reads the element, out of range is absent (no key)
		{verifDSL(`a = [10, 20, 30]; $v = a[$x]`), func(x int64, r *mlrval.Mlrmap) {
			switch {
			case x >= 1 && x <= 3:
				c14IntIs(r, "v", 10*x, "C14/dsl/index/symbolic-index-in-range")
			case x <= -1 && x >= -3:
				c14IntIs(r, "v", 10*(4+x), "C14/dsl/index/symbolic-negative-index-in-range")
			}
		}},
		// auto-extend by one, auto-create of nested maps
		{verifDSL(`a = [1]; a[2] = $x; $n = length(a); @m[1][2] = $x; $d = depth(@m); $e = @m[1][2]`), func(x int64, r *mlrval.Mlrmap) {
			c14IntIs(r, "n", 2, "C14/dsl/index/auto-extend-by-one")
			c14IntIs(r, "d", 2, "C14/dsl/index/auto-create-nested-maps")
			c14IntIs(r, "e", x, "C14/dsl/index/auto-created-element")
		}},
		// pattern-action block and elif chain
		{verifDSL(`$x > 2 { $big = 1 } if ($x < 0) { $s = "neg" } elif ($x == 0) { $s = "zero" } else { $s = "pos" }`), func(x int64, r *mlrval.Mlrmap) {
			if x > 2 {
				c14IntIs(r, "big", 1, "C14/dsl/cond/pattern-action-taken")
			} else {
				c14Absent(r, "big", "C14/dsl/cond/pattern-action-not-taken")
			}
			want := "pos"
			if x < 0 {
				want = "neg"
			} else if x == 0 {
				want = "zero"
			}
			s, ok := c14Str(r, "s")
			verifAssert(ok && s == want, "C14/dsl/cond/if-elif-else")
		}},
		// precedence: ** binds tighter than unary minus binds tighter than * binds tighter than +; ?: and ??
		{verifDSL(`$p = 1 + 2 * $x; $q = 2 ** 3 ** 1 * 2; $t = $x > 0 ? 1 : 2; $u = $nosuch ?? 9; $w = (1 + 2) * $x`), func(x int64, r *mlrval.Mlrmap) {
			c14IntIs(r, "p", 1+2*x, "C14/dsl/precedence/times-over-plus")
			c14IntIs(r, "q", 16, "C14/dsl/precedence/power-over-times")
			t := int64(2)
			if x > 0 {
				t = 1
			}
			c14IntIs(r, "t", t, "C14/dsl/precedence/ternary")
			c14IntIs(r, "u", 9, "C14/dsl/precedence/absent-coalescing")
			c14IntIs(r, "w", 3*x, "C14/dsl/precedence/parentheses")
		}},
		// $* assignment and map functions
		{verifDSL(`$* = mapexcept($*, "b"); $n = NF`), func(x int64, r *mlrval.Mlrmap) {
			verifAssert(c14Keys(r) == "a,x,c,n", "C14/dsl/fields/dollar-star-assignment")
			c14IntIs(r, "n", 3, "C14/dsl/fields/NF-is-the-current-field-count")
		}},
		// function literal with a higher-order function, capturing nothing but its arguments
		{verifDSL(`$y = apply([1, 2, 3], func(e) { return e * 10 })[2]; $z = fold([1, 2, 3], func(acc, e) { return acc + e }, $x)`), func(x int64, r *mlrval.Mlrmap) {
			c14IntIs(r, "y", 20, "C14/dsl/hof/apply")
			c14IntIs(r, "z", 6+x, "C14/dsl/hof/fold")
		}},
	}
}

func c14Record(x int64) *mlrval.Mlrmap {
	rec := mlrval.NewMlrmapAsRecord()
	rec.PutReference("a", mlrval.FromString("g"))
	rec.PutReference("b", mlrval.FromInt(3))
	rec.PutReference("x", mlrval.FromInt(x))
	rec.PutReference("c", mlrval.FromInt(5))
	return rec
}

//verif:opts maxpaths=50000 unwind=200
func VerifC14_dsl_template_suite() {
	ts := c14Templates()
	t := ts[verifChoice("template", len(ts))]
	x := verifInt64("x")
	verifAssume(x >= -2 && x <= 6)
	tr := verifPut(t.dsl)
	out := verifPutRun(tr, []*mlrval.Mlrmap{c14Record(x)})
	verifAssert(len(out) == 1, "C14/dsl/one-record-out")
	if len(out) == 1 {
		t.check(x, out[0])
	}
	verifReach("C14/dsl/templates/end")
}

// out-of-stream variables persist across records and are private to each put; type declarations are
// enforced at every assignment (an error, not a silent store)
//verif:opts engine-only maxpaths=50000 unwind=200
func VerifC14_dsl_oosvars_and_type_gates() {
	x := verifInt64("x")
	verifAssume(x >= -2 && x <= 6)
	switch verifChoice("case", 3) {
	case 0:
		tr1 := verifPut(verifDSL(`@c += 1; @s += $x; $c = @c; $s = @s`))
		tr2 := verifPut(verifDSL(`@c += 100; $c2 = @c`))
		out := verifPutRun(tr1, []*mlrval.Mlrmap{c14Record(x), c14Record(1), c14Record(2)})
		verifAssert(len(out) == 3, "C14/dsl/oosvar/three-records")
		if len(out) == 3 {
			c14IntIs(out[0], "c", 1, "C14/dsl/oosvar/persists-1")
			c14IntIs(out[2], "c", 3, "C14/dsl/oosvar/persists-3")
			c14IntIs(out[2], "s", x+3, "C14/dsl/oosvar/accumulates-across-records")
		}
		out2 := verifPutRun(tr2, []*mlrval.Mlrmap{c14Record(0)})
		if len(out2) == 1 {
			c14IntIs(out2[0], "c2", 100, "C14/dsl/oosvar/private-to-each-put")
		}
	case 1:
		// int-typed local assigned a string later: must be an error
		tr := verifPut(verifDSL(`int i = $x; if ($x > 3) { i = "abc" } $i = i`))
		ctxOut := c14RunErr(tr, c14Record(x))
		if x > 3 {
			verifAssert(ctxOut.err, "C14/dsl/types/declaration-enforced-at-later-assignment")
		} else {
			verifAssert(!ctxOut.err && len(ctxOut.recs) == 1, "C14/dsl/types/well-typed-run-succeeds")
		}
	case 2:
		// typed parameter and typed return
		tr := verifPut(verifDSL(`func f(str s): int { return strlen(s) } if ($x > 3) { $y = f($x) } else { $y = f("ab") }`))
		ctxOut := c14RunErr(tr, c14Record(x))
		if x > 3 {
			verifAssert(ctxOut.err, "C14/dsl/types/typed-parameter-enforced")
		} else {
			verifAssert(!ctxOut.err && len(ctxOut.recs) == 1, "C14/dsl/types/well-typed-call-succeeds")
			if len(ctxOut.recs) == 1 {
				c14IntIs(ctxOut.recs[0], "y", 2, "C14/dsl/types/typed-call-result")
			}
		}
	}
	verifReach("C14/dsl/oosvars-types/end")
}

// emit-by-names splits nested maps exactly as grouping would: @sum[$a][$b] += $x over three records
// (a ∈ {p,q}, b ∈ {u,v} chosen per record, x a symbolic int), then the emit family in the end block.
// Reference: the (a,b) groups with their sums and counts, nested in first-appearance order (a, then
// b within a).
func VerifC14_dsl_emit_family() {
	type rec struct {
		a, b string
		x    int64
	}
	var in []rec
	for i := 0; i < 3; i++ {
		r := rec{a: []string{"p", "q"}[verifChoice("a", 2)], b: []string{"u", "v"}[verifChoice("b", 2)], x: verifInt64("x")}
		verifAssume(r.x >= -4 && r.x <= 4)
		in = append(in, r)
	}
	type grp struct {
		a, b       string
		sum, count int64
	}
	var as []string
	var groups []grp // nested order: by a's first appearance, then b's first appearance within a
	for _, r := range in {
		if !c12In(r.a, as) {
			as = append(as, r.a)
		}
	}
	for _, a := range as {
		for _, r := range in {
			if r.a != a {
				continue
			}
			found := false
			for k := range groups {
				if groups[k].a == a && groups[k].b == r.b {
					groups[k].sum += r.x
					groups[k].count++
					found = true
				}
			}
			if !found {
				groups = append(groups, grp{a, r.b, r.x, 1})
			}
		}
	}
	stmts := []string{
		verifDSL(`@sum[$a][$b] += $x; @count[$a][$b] += 1; @n += 1; end { emit @sum, "a", "b" }`),
		verifDSL(`@sum[$a][$b] += $x; @count[$a][$b] += 1; @n += 1; end { emitp @sum, "a", "b" }`),
		verifDSL(`@sum[$a][$b] += $x; @count[$a][$b] += 1; @n += 1; end { emit (@sum, @count), "a", "b" }`),
		verifDSL(`@sum[$a][$b] += $x; @count[$a][$b] += 1; @n += 1; end { emit @sum, "a" }`),
		verifDSL(`@sum[$a][$b] += $x; @count[$a][$b] += 1; @n += 1; end { emitf @n; emit1 {"k": 1} }`),
		verifDSL(`@sum[$a][$b] += $x; @count[$a][$b] += 1; end { emit @*, "a", "b" }`),
		verifDSL(`@sum[$a][$b] += $x; @count[$a][$b] += 1; end { emit {"s": @sum, "c": @count}, "a", "b" }`),
	}
	which := verifChoice("statement", len(stmts))
	tr := verifPut(stmts[which])
	var recs []*mlrval.Mlrmap
	for _, r := range in {
		m := mlrval.NewMlrmapAsRecord()
		m.PutReference("a", mlrval.FromString(r.a))
		m.PutReference("b", mlrval.FromString(r.b))
		m.PutReference("x", mlrval.FromInt(r.x))
		recs = append(recs, m)
	}
	all := verifPutRun(tr, recs)
	verifAssert(len(all) >= 3, "C14/emit/records-pass-through")
	if len(all) < 3 {
		return
	}
	out := all[3:] // what the end block emitted
	switch which {
	case 0, 1, 2:
		verifAssert(len(out) == len(groups), "C14/emit/one-record-per-leaf-group")
		for k := 0; k < len(out) && k < len(groups); k++ {
			a, _ := c14Str(out[k], "a")
			b, _ := c14Str(out[k], "b")
			verifAssert(a == groups[k].a && b == groups[k].b, "C14/emit/split-by-names-in-nested-first-appearance-order")
			c14IntIs(out[k], "sum", groups[k].sum, "C14/emit/leaf-value-under-the-variable's-name")
			if which == 2 {
				c14IntIs(out[k], "count", groups[k].count, "C14/emit/lashed-emit-carries-both-variables")
				verifAssert(c14Keys(out[k]) == "a,b,sum,count", "C14/emit/lashed-record-shape")
			} else {
				verifAssert(c14Keys(out[k]) == "a,b,sum", "C14/emit/record-shape")
			}
		}
	case 3:
		verifAssert(len(out) == len(as), "C14/emit/one-record-per-first-level-key")
		for k := 0; k < len(out) && k < len(as); k++ {
			a, _ := c14Str(out[k], "a")
			verifAssert(a == as[k], "C14/emit/first-level-keys-in-first-appearance-order")
			keys := "a"
			for _, g := range groups {
				if g.a == as[k] {
					keys += "," + g.b
					c14IntIs(out[k], g.b, g.sum, "C14/emit/remaining-level-becomes-columns")
				}
			}
			verifAssert(c14Keys(out[k]) == keys, "C14/emit/columns-in-first-appearance-order")
		}
	case 5, 6:
		// several emittables, not lashed: each is split by the names in turn, under its own name
		n1, n2 := "sum", "count"
		if which == 6 {
			n1, n2 = "s", "c"
		}
		verifAssert(len(out) == 2*len(groups), "C14/emit/each-emittable-split-in-turn")
		for k := 0; k < len(groups) && len(out) == 2*len(groups); k++ {
			for half, nm := range []string{n1, n2} {
				r := out[half*len(groups)+k]
				a, _ := c14Str(r, "a")
				b, _ := c14Str(r, "b")
				verifAssert(a == groups[k].a && b == groups[k].b, "C14/emit/multi-emittable-split-by-names")
				want := groups[k].sum
				if half == 1 {
					want = groups[k].count
				}
				c14IntIs(r, nm, want, "C14/emit/each-emittable-under-its-own-name")
				verifAssert(c14Keys(r) == "a,b,"+nm, "C14/emit/multi-emittable-record-shape")
			}
		}
	case 4:
		verifAssert(len(out) == 2, "C14/emitf-emit1/two-records")
		if len(out) == 2 {
			c14IntIs(out[0], "n", 3, "C14/emitf/variable-under-its-name")
			c14IntIs(out[1], "k", 1, "C14/emit1/map-literal")
		}
	}
	verifReach("C14/emit/end")
}

// C17 — a run-time failure in a begin block is reported also when no record ever reaches the verb
// (mlr -n, an empty file, head -n 0 upstream): the end-of-stream call returns the error (or ends the
// process non-zero); with records it is reported at the first record.
//verif:opts engine-only
func VerifC17_begin_block_failure_is_reported_without_records() {
	progs := []string{
		verifDSL(`begin { int i = "abc" } end { @x = 1; emit @x }`),
		verifDSL(`begin { var a = 1; var a = 2 } end { emit {"done": 1} }`),
		verifDSL(`begin { @k = 1 } end { emit @k }`),
	}
	which := verifChoice("program", len(progs))
	tr := verifPut(progs[which])
	withRecord := verifChoice("with_record", 2) == 1
	failed := false
	code := verifCatch(func() {
		ctx := types.NewContext()
		idc, odc := make(chan bool, 1), make(chan bool, 8)
		out := []*types.RecordAndContext{}
		if withRecord {
			if tr.Transform(types.NewRecordAndContext(c14Record(1), ctx), &out, idc, odc) != nil {
				failed = true
				return
			}
		}
		if tr.Transform(types.NewEndOfStreamMarker(ctx), &out, idc, odc) != nil {
			failed = true
		}
	})
	if code != 0 {
		failed = true
	}
	if which < 2 {
		verifAssert(failed, "C17/begin/failure-in-a-begin-block-is-reported-even-without-records")
	} else {
		verifAssert(!failed, "C17/begin/no-spurious-failure")
	}
	verifReach("C17/begin/end")
}

// Per-record state does not leak into later records: a `filter` statement decides about the CURRENT
// record only ("mlr put 'filter NR==2 || NR==3'" ≡ "mlr filter 'NR==2 || NR==3'",
// reference-dsl-filter-statements.md), a record for which no filter statement runs is emitted, and
// locals start absent on every record.  Three records with symbolic x in [0,2] each.
//verif:opts engine-only maxpaths=50000 unwind=200
func VerifC14_dsl_per_record_state() {
	var xs [3]int64
	recs := []*mlrval.Mlrmap{}
	for i := range xs {
		xs[i] = verifInt64("x")
		verifAssume(xs[i] >= 0 && xs[i] <= 2)
		recs = append(recs, c14Record(xs[i]))
	}
	progs := []string{
		verifDSL(`if ($x == 1) { filter false }`),
		verifDSL(`$x == 1 { filter false } $x == 2 { filter true }`),
		verifDSL(`filter $x != 1; $y = 1`),
		verifDSL(`if ($x == 1) { y = 5 } else { $seen = is_absent(y) } if ($x == 1) { filter false }`),
	}
	tr := verifPut(progs[verifChoice("program", len(progs))])
	out := verifPutRun(tr, recs)
	pos := 0
	for i := range xs {
		if xs[i] == 1 {
			continue
		}
		verifAssert(pos < len(out), "C14/dsl/per-record/a-record-no-filter-statement-excludes-is-emitted")
		if pos < len(out) {
			c14IntIs(out[pos], "x", xs[i], "C14/dsl/per-record/emitted-in-input-order")
			if v, ok := c14Str(out[pos], "seen"); ok {
				verifAssert(v == "true", "C14/dsl/per-record/locals-start-absent-on-every-record")
			}
		}
		pos++
	}
	verifAssert(len(out) == pos, "C14/dsl/per-record/filter-false-excludes-exactly-the-current-record")
	verifReach("C14/dsl/per-record/end")
}

// Positional-name assignment onto the name of ANOTHER existing field, followed by accesses by name,
// on narrow and wide records (n over {3, 11, 12, 13}: below and above the width at which records
// build their key index): $[[1]] = "f3" renames field 1 to f3 and displaces the old f3; afterwards
// $f3 names exactly one field — the renamed one, in first position — for assignment, read and unset.
//verif:opts engine-only maxpaths=50000 unwind=400
func VerifC14_dsl_positional_name_then_access_by_name() {
	n := []int{3, 11, 12, 13}[verifChoice("fields", 4)]
	x := verifInt64("x")
	verifAssume(x >= -2 && x <= 6)
	rec := mlrval.NewMlrmapAsRecord()
	for i := 1; i <= n; i++ {
		name := "f" + string(rune('0'+i/10)) + string(rune('0'+i%10))
		rec.PutReference(name, mlrval.FromInt(int64(i)))
	}
	progs := []string{
		verifDSL(`$[[1]] = "f03"; $f03 = $x0; $new = $f03`),
		verifDSL(`$[[1]] = "f03"; $new = $f03`),
		verifDSL(`$[[1]] = "f03"; unset $f03; $new = is_absent($f03)`),
	}
	which := verifChoice("program", len(progs))
	rec.PutReference("x0", mlrval.FromInt(x))
	out := verifPutRun(verifPut(progs[which]), []*mlrval.Mlrmap{rec})
	verifAssert(len(out) == 1, "C14/dsl/positional-name/one-record")
	if len(out) != 1 {
		return
	}
	count := 0
	for pe := out[0].Head; pe != nil; pe = pe.Next {
		if pe.Key == "f03" {
			count++
		}
	}
	switch which {
	case 0:
		verifAssert(count == 1 && out[0].Head.Key == "f03", "C14/dsl/positional-name/the-name-denotes-exactly-one-field")
		c14IntIs(out[0], "f03", x, "C14/dsl/positional-name/assignment-by-name-reaches-the-renamed-field")
		c14IntIs(out[0], "new", x, "C14/dsl/positional-name/read-by-name-reaches-the-renamed-field")
	case 1:
		verifAssert(count == 1 && out[0].Head.Key == "f03", "C14/dsl/positional-name/the-name-denotes-exactly-one-field")
		c14IntIs(out[0], "new", 1, "C14/dsl/positional-name/read-by-name-reaches-the-renamed-field")
	case 2:
		verifAssert(count == 0, "C14/dsl/positional-name/unset-by-name-removes-the-renamed-field")
	}
	verifAssert(out[0].FieldCount == int64(n)+1-int64(which/2), "C14/dsl/positional-name/field-count")
	verifReach("C14/dsl/positional-name/end")
}
