//go:build verif

package transformers

// C18 at the verb level — verbs built from their REAL command lines with boundary counts
// (K ∈ {-1, 0, 1, 3}) and regex-literal oddities, run over two heterogeneous records (g missing /
// one symbolic byte; x missing / empty / a number / text; y missing / a number): construction may
// refuse the arguments (an error or an `mlr:` exit), Transform may return an error, but nothing may
// panic, index out of range, allocate a negative size or loop without bound.

import (
	"github.com/johnkerl/miller/v6/pkg/cli"
	"github.com/johnkerl/miller/v6/pkg/mlrval"
	"github.com/johnkerl/miller/v6/pkg/types"
)

func c18Argvs(k string) [][]string {
	return [][]string{
		{"top", "-n", k, "-f", "x"},
		{"top", "-n", k, "-f", "x,y", "-g", "g"},
		{"top", "-n", k, "-f", "x", "-a", "--min"},
		{"bar", "-f", "x", "--lo", "0", "--hi", "10", "-w", k},
		{"bar", "-f", "x", "--auto", "-w", k},
		{"head", "-n", k, "-g", "g"},
		{"tail", "-n", k, "-g", "g"},
		{"decimate", "-n", k, "-g", "g"},
		{"fraction", "-f", "x,y", "-g", "g"},
		{"fraction", "-f", "x,y", "-p", "-c"},
		{"histogram", "-f", "x,y", "--lo", "0", "--hi", "4", "--nbins", k},
		{"histogram", "-f", "x", "--auto", "--nbins", k},
		{"step", "-a", "shift_lag,shift_lead,ratio,rprod,counter", "-f", "x,y", "-g", "g"},
		{"step", "-a", "ewma", "-d", "0.1,0.9", "-f", "x"},
		{"step", "-a", "slwin_2_2,from-first", "-f", "x"},
		{"merge-fields", "-a", "sum,count,p50,first,last", "-f", "x,y", "-o", "out"},
		{"merge-fields", "-k", "-a", "max,antimode", "-c", "x,y"},
		{"stats1", "-a", "p10,p90,iqr,lof,uof,var,meaneb,skewness,kurtosis,minlen,null_count,distinct_count,mode", "-f", "x,y", "-g", "g"},
		{"stats1", "-a", "first,last,count", "-f", "x", "-s"},
		{"stats2", "-a", "linreg-ols,r2,cov,corr,linreg-pca", "-f", "x,y"},
		{"count-similar", "-g", "g,x"},
		{"nest", "--ivar", ";", "-f", "x"},
		{"nest", "--explode", "--values", "--across-records", "-f", "g", "--nested-fs", ";"},
		{"nest", "--explode", "--pairs", "--across-fields", "-f", "g", "--nested-fs", ";", "--nested-ps", ":"},
		{"fill-down", "-a", "-f", "x,y"},
		{"fill-down", "--all"},
		{"sec2gmt", "-" + k, "x,y"},
		{"sec2gmt", "--millis2gmt", "x"},
		{"sec2gmtdate", "x,y"},
		{"seqgen", "--start", "1", "--stop", k, "--step", k},
		{"having-fields", "--any-matching", "\"i"},
		{"having-fields", "--all-matching", "/i"},
		{"cut", "-r", "-f", "\"^X\"i,\"i"},
		{"rename", "-r", "^(.)$,\\1_\\2"},
		{"rename", "-g", "-r", "/i,X"},
		{"reorder", "-e", "-f", "x,nosuch"},
		{"sub", "-f", "x,g", "(", "y"},
		{"gsub", "-a", "", "y"},
		{"ssub", "-f", "x", "", ""},
		{"format-values", "-n", "-f", "%.3lf"},
		{"format-values", "-i", "%08llx", "-s", "[%s]"},
		{"sparsify", "-s", "X", "-f", "x,y"},
		{"template", "-f", "y,x,g", "--fill-with", "N"},
		{"unsparsify", "--fill-with", "X", "-f", "a,b"},
		{"count-distinct", "-f", "g,x", "-u"},
		{"count-distinct", "-n", "-f", "g"},
		{"uniq", "-a", "-c"},
		{"uniq", "-d", "-g", "g"},
		{"uniq", "-u", "-g", "g"},
		{"most-frequent", "-f", "g,x", "-b"},
		{"least-frequent", "-f", "g", "-o", "n"},
		{"sort", "-nr", "x", "-f", "g", "-t", "y"},
		{"sort-within-records", "-r"},
		{"sort-within-records-values", "-r"},
		{"altkv"},
		{"label", "p,q,r,s,t"},
		{"regularize"},
		{"group-like"},
		{"tac"},
		{"json-stringify", "-f", "x"},
		{"json-parse", "-f", "g"},
		{"flatten", "-s", ":"},
		{"unflatten", "-f", "g"},
		{"utf8-to-latin1"},
		{"latin1-to-utf8"},
		// (the case verb is not in the palette: golang.org/x/text/cases needs package state the engine's
		// lazy initialiser does not build — it runs fine natively; stated as outside this check)
		{"unspace", "-f", "."},
		{"split-join", "-f", "g"},
		{"sec2str", "x", "%Y-%m-%d"},
		{"gap", "-n", k},
		{"gap", "-g", "g"},
		{"grep", "-i", "-a", "^$"},
		{"fill-empty", "--only-if-blank"},
		{"fill-empty", "-S"},
		{"summary"},
		{"summary", "-a", "minlen,maxlen,null_count,mean,median", "--transpose"},
	}
}

//verif:opts engine-only maxpaths=400000 unwind=200
func VerifC18_verbs_do_not_crash() {
	k := []string{"-1", "0", "1", "3"}[verifChoice("K", 4)]
	argvs := c18Argvs(k)
	argv := argvs[verifChoice("verb", len(argvs))]
	verifObserveStr("fn", argv[0])
	verifAllowOpaqueCut()
	var recs []*mlrval.Mlrmap
	for i := 0; i < 2; i++ {
		rec := mlrval.NewMlrmapAsRecord()
		if verifBool("has_g") {
			g := verifString("g", 1)
			verifAssume(g[0] >= 'a' && g[0] <= 'c')
			rec.PutReference("g", mlrval.FromString(g))
		}
		// which fields are there and of what kind is symbolic; the numbers themselves are concrete
		// (the statistical verbs do float arithmetic on them, which is C10's and C07's subject)
		switch verifChoice("x_kind", 4) {
		case 1:
			rec.PutReference("x", mlrval.FromDeferredType(""))
		case 2:
			rec.PutReference("x", mlrval.FromInt(int64(2+i)))
		case 3:
			rec.PutReference("x", mlrval.FromDeferredType("abc"))
		}
		if verifBool("has_y") {
			rec.PutReference("y", mlrval.FromInt(int64(-1+2*i)))
		}
		rec.PutReference("id", mlrval.FromInt(int64(i)))
		recs = append(recs, rec)
	}
	// no recover here: a panic ends the path as a violation labelled with its own site; an `mlr:`
	// exit ends the path normally
	setup := LookUp(argv[0])
	if setup == nil {
		verifReach("C18/verbs/no-such-verb")
		return
	}
	argi := 0
	tr, err := setup.ParseCLIFunc(&argi, len(argv), argv, cli.DefaultOptions(), true)
	if err != nil || tr == nil {
		verifReach("C18/verbs/refused")
		return // refused with an error: fine
	}
	ctx := types.NewContext()
	idc, odc := make(chan bool, 1), make(chan bool, 64)
	out := []*types.RecordAndContext{}
	for _, r := range recs {
		if tr.Transform(types.NewRecordAndContext(r, ctx), &out, idc, odc) != nil {
			verifReach("C18/verbs/data-error")
			return
		}
	}
	tr.Transform(types.NewEndOfStreamMarker(ctx), &out, idc, odc)
	verifReach("C18/verbs/end")
}

// Incomplete and odd verb command lines: every proper prefix of every command line of the palette
// above (a flag left without its argument, a verb left without its required flags), plus
// flag-only command lines of verbs whose parsers peek at the next word, go through the verb's REAL
// ParseCLIFunc in both passes (doConstruct false, as the main command-line parser's first pass, and
// true).  Refusing with an error (or the usage exit) is fine; a panic is the violation.
//verif:opts engine-only maxpaths=400000 unwind=200
func VerifC18_truncated_verb_command_lines() {
	argvs := c18Argvs([]string{"0", "3"}[verifChoice("K", 2)])
	argvs = append(argvs, [][]string{
		{"sort", "-c"}, {"sort", "-n"}, {"sort", "-t"}, {"sort", "-c", "-r"}, {"sort", "-n", "-r"}, {"sort", "-t", "-r"},
		{"sort", "-f"}, {"sort", "-r"}, {"sort", "-nf"}, {"sort", "-nr"}, {"sort", "-tf"}, {"sort", "-tr"}, {"sort", "-cr"},
		{"split", "-n", "0", "-g"}, {"split", "-m"}, {"split", "--prefix"}, {"split", "-n", "2", "--ojson", "--ofs"},
		{"join", "-f", "x", "-j"}, {"join", "--lp", "a", "--rp"}, {"join", "-s", "-i"},
		{"cut", "-o", "-f"}, {"cut", "-r", "-f", "\""}, {"head", "-n"}, {"tail", "-g"}, {"nest", "--evar"}, {"nest", "--explode", "--values", "--across-records", "--nested-fs"},
		{"reorder", "-e", "-f"}, {"rename", "-r"}, {"rename", "a"}, {"sec2gmt", "-1"}, {"sec2gmt", "--micros2gmt"}, {"fill-down", "-f"}, {"fill-empty", "-v"},
		{"seqgen", "-f"}, {"seqgen", "--start"}, {"step", "-a", "ewma", "-d"}, {"step", "-a", "ewma", "-o"}, {"merge-fields", "-a"}, {"top", "-o"},
		{"tee", "-p"}, {"tee", "-a"}, {"tee", "--ojson"}, {"put", "-s"}, {"put", "-f"}, {"put", "-e"}, {"filter", "-x"}, {"put", "-s", "a"}, {"put", "-q", "-S"},
		{"having-fields", "--at-least"}, {"sec2str"}, {"sec2str", "x"}, {"split-lines"}, {"utf8-to-latin1", "-x"}, {"summary", "-a"}, {"summary", "-x"},
		{"bootstrap", "-n"}, {"sample", "-k"}, {"shuffle", "-x"}, {"repeat", "-n"}, {"repeat", "-f"}, {"grep", "-i"}, {"grep"}, {"json-parse", "-k", "-f"}, {"fraction", "-f"}, {"histogram", "--lo"},
		{"count-similar", "-g"}, {"count-similar", "-o"}, {"label"}, {"sparsify", "-s"}, {"template", "-t"}, {"template", "--fill-with"}, {"unsparsify", "-f"}, {"nothing", "-x"},
	}...)
	argv := argvs[verifChoice("verb", len(argvs))]
	verifObserveStr("fn", argv[0])
	n := 1 + verifChoice("words_kept", len(argv))
	argv = argv[:n]
	setup := LookUp(argv[0])
	if setup == nil {
		verifReach("C18/verbs-truncated/no-such-verb")
		return
	}
	construct := verifChoice("second_pass", 2) == 1
	// no recover: a panic ends the path as a violation labelled with its own site; the usage exit
	// of a refused command line ends the path normally
	argi := 0
	setup.ParseCLIFunc(&argi, len(argv), argv, cli.DefaultOptions(), construct)
	verifAssert(argi <= len(argv), "C18/verbs-truncated/parser-does-not-run-past-the-command-line")
	verifReach("C18/verbs-truncated/end")
}
