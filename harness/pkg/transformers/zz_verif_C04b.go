//go:build verif

package transformers

// C04/C20 — "tee before head": tee passes every record on AND writes every record to its target
// even when a later head stops early; the downstream-done flag raised by head must not travel past
// tee to the reader.  The real ChainTransformer runs [tee f, head -n 1] (and the control chain
// [cat, head -n 1], where the flag must reach the reader) over records handed in one per batch;
// tee's file goes to a file-system stub.

import (
	"os"

	"github.com/johnkerl/miller/v6/pkg/cli"
	"github.com/johnkerl/miller/v6/pkg/mlrval"
	"github.com/johnkerl/miller/v6/pkg/types"
)

var c04Files map[string][]byte
var c04Handles map[*os.File]string

func c04OpenFile(name string, flag int, perm os.FileMode) (*os.File, error) {
	f := &os.File{}
	c04Handles[f] = name
	if flag&os.O_TRUNC != 0 || c04Files[name] == nil {
		c04Files[name] = []byte{}
	}
	return f, nil
}
func c04Write(f *os.File, p []byte) (int, error) {
	c04Files[c04Handles[f]] = append(c04Files[c04Handles[f]], p...)
	return len(p), nil
}
func c04Close(f *os.File) error { delete(c04Handles, f); return nil }

//verif:opts engine-only maxpaths=50000
func VerifC04_tee_before_head_tees_everything() {
	verifReplace("os.OpenFile", c04OpenFile)
	verifReplace("(*os.File).Write", c04Write)
	verifReplace("(*os.File).Close", c04Close)
	c04Files = map[string][]byte{}
	c04Handles = map[*os.File]string{}
	withTee := verifChoice("with_tee", 2) == 1
	preempt := verifChoice("verbs_may_be_descheduled_after_a_send", 2) == 1
	n := 3 + verifChoice("more_records", 2)
	var first RecordTransformer
	if withTee {
		first = verifVerb("tee", "f")
	} else {
		first = verifVerb("cat")
	}
	verbs := []RecordTransformer{first, verifVerb("head", "-n", "1")}

	readerCh := make(chan []*types.RecordAndContext, 2)
	readerDone := make(chan bool, 1)
	writerCh := make(chan []*types.RecordAndContext, 64)
	errCh := make(chan error, 8)
	ctx := types.NewContext()
	verifPreemptAfterSend(preempt)
	ChainTransformer(readerCh, readerDone, verbs, writerCh, errCh, &cli.TOptions{})
	for i := 0; i < n; i++ {
		rec := mlrval.NewMlrmapAsRecord()
		rec.PutReference("i", mlrval.FromInt(int64(i)))
		readerCh <- []*types.RecordAndContext{types.NewRecordAndContext(rec, ctx)}
		verifYield() // the reader is slow: everything downstream runs as far as it can between batches
	}
	readerCh <- types.NewEndOfStreamMarkerList(ctx)
	got := 0
	for done := false; !done; {
		b := <-writerCh
		for _, rac := range b {
			if rac.EndOfStream {
				done = true
			} else if rac.Record != nil {
				got++
			}
		}
	}
	verifYield()
	verifAssert(got == 1, "C04/tee-head/main-stream-is-head's")
	verifAssert(len(errCh) == 0, "C04/tee-head/no-error")
	if withTee {
		verifAssert(len(readerDone) == 0, "C04/tee-head/done-flag-does-not-travel-past-tee")
		want := ""
		for i := 0; i < n; i++ {
			want += "i=" + string(rune('0'+i)) + "\n"
		}
		verifAssert(string(c04Files["f"]) == want, "C20/tee-head/tee-target-holds-every-record")
	} else {
		verifAssert(len(readerDone) == 1, "C04/cat-head/done-flag-reaches-the-reader")
	}
	verifReach("C04/tee-head/end")
}
