//go:build verif

package transformers

// C09 at the verb / DSL level.
//  * The sort verb (built from its real command line) on three records: the output is a permutation
//    ordered by the keys in precedence order, each with its own flag, records whose key texts tie on
//    every key keep their input order, and records lacking a key follow all others in input order.
//    Key x is drawn per record from a palette of spellings that collate equal but are written
//    differently ("1", "1.0", "0x1"), plus other numbers, text, empty and missing; key y is one
//    symbolic byte.  The per-key comparators themselves are C09's kernel harnesses; here the oracle
//    is the stable lexicographic combination the statement describes.
//  * The DSL sort function with a user comparator whose results are fractional (sign matters, not
//    magnitude), through the real put verb.

import (
	"github.com/johnkerl/miller/v6/pkg/mlrval"
)

type c09Rec struct {
	id   int
	hasX bool
	x    string
	y    string
}

func c09Cmp(flag string, a, b string) int {
	ma, mb := mlrval.FromInferredType(a), mlrval.FromInferredType(b)
	switch flag {
	case "-nf":
		return mlrval.NumericAscendingComparator(ma, mb)
	case "-nr":
		return mlrval.NumericDescendingComparator(ma, mb)
	case "-f":
		return mlrval.LexicalAscendingComparator(ma, mb)
	case "-r":
		return mlrval.LexicalDescendingComparator(ma, mb)
	case "-c":
		return mlrval.CaseFoldAscendingComparator(ma, mb)
	}
	return 0
}

func VerifC09_sort_verb_multi_key() {
	xs := []string{"1", "1.0", "2", "abc"}
	if verifTier() > 0 {
		xs = []string{"1", "1.0", "0x1", "2", "-3", "abc", ""}
	}
	var in []c09Rec
	for i := 0; i < 3; i++ {
		r := c09Rec{id: i}
		k := verifChoice("x", len(xs)+1)
		if k < len(xs) {
			r.hasX, r.x = true, xs[k]
		}
		y := verifString("y", 1)
		verifAssume(y[0] >= 'A' && y[0] <= 'z')
		r.y = y
		in = append(in, r)
	}
	type spec struct {
		argv  []string
		flags []string // per key
		keys  []string
	}
	specs := []spec{
		{[]string{"sort", "-nf", "x", "-f", "y"}, []string{"-nf", "-f"}, []string{"x", "y"}},
		{[]string{"sort", "-nr", "x", "-r", "y"}, []string{"-nr", "-r"}, []string{"x", "y"}},
		{[]string{"sort", "-f", "x", "-c", "y"}, []string{"-f", "-c"}, []string{"x", "y"}},
		{[]string{"sort", "-c", "y", "-nf", "x"}, []string{"-c", "-nf"}, []string{"y", "x"}},
		{[]string{"sort", "-nf", "x"}, []string{"-nf"}, []string{"x"}},
	}
	sp := specs[verifChoice("flags", len(specs))]
	var recs [][]c12KV
	for _, r := range in {
		rec := []c12KV{{"id", string(rune('0' + r.id))}}
		if r.hasX {
			rec = append(rec, c12KV{"x", r.x})
		}
		rec = append(rec, c12KV{"y", r.y})
		recs = append(recs, rec)
	}
	out := c12Run(verifVerb(sp.argv...), recs)
	verifAssert(len(out) == len(recs), "C09/sort-verb/permutation-size")
	// oracle: stable insertion sort of the records having every key, then the others in input order
	val := func(r c09Rec, k string) string {
		if k == "x" {
			return r.x
		}
		return r.y
	}
	var with, without []c09Rec
	for _, r := range in {
		if r.hasX || (len(sp.keys) == 1 && sp.keys[0] == "y") {
			with = append(with, r)
		} else {
			usesX := false
			for _, k := range sp.keys {
				if k == "x" {
					usesX = true
				}
			}
			if usesX {
				without = append(without, r)
			} else {
				with = append(with, r)
			}
		}
	}
	less := func(a, b c09Rec) bool {
		for i, k := range sp.keys {
			c := c09Cmp(sp.flags[i], val(a, k), val(b, k))
			if c != 0 {
				return c < 0
			}
		}
		return false
	}
	// the output: a permutation of unchanged records; the records having every key come first,
	// non-decreasing under the key comparators in precedence order; records whose key TEXTS are
	// identical keep their input order; the records lacking a key follow in input order
	seen := []bool{false, false, false}
	var ids []int
	for i := 0; i < len(out); i++ {
		id, _ := c12Get(out[i], "id")
		k := int(id[0] - '0')
		verifAssert(k >= 0 && k < 3 && !seen[k], "C09/sort-verb/permutation")
		if k < 0 || k >= 3 {
			return
		}
		seen[k] = true
		ids = append(ids, k)
		verifAssert(c12Same(out[i], recs[k]), "C09/sort-verb/records-unchanged")
	}
	if len(ids) != 3 {
		return
	}
	for i := 0; i < len(ids); i++ {
		isWith := false
		for _, w := range with {
			if w.id == ids[i] {
				isWith = true
			}
		}
		verifAssert(isWith == (i < len(with)), "C09/sort-verb/records-lacking-a-key-follow-all-others")
	}
	for i := 0; i+1 < len(with); i++ {
		a, b := in[ids[i]], in[ids[i+1]]
		verifAssert(!less(b, a), "C09/sort-verb/ordered-by-the-keys-in-precedence-order")
		sameText := true
		for _, k := range sp.keys {
			if val(a, k) != val(b, k) {
				sameText = false
			}
		}
		if sameText {
			verifAssert(a.id < b.id, "C09/sort-verb/identical-key-texts-keep-input-order")
		}
	}
	for i := len(with); i+1 < len(ids); i++ {
		verifAssert(ids[i] < ids[i+1], "C09/sort-verb/records-lacking-a-key-in-input-order")
	}
	verifReach("C09/sort-verb/end")
}

func VerifC09_dsl_sort_with_comparator() {
	tr := verifPut(verifDSL(`s = sort([$p, $q, $r], func(a, b) { return (a - b) / 4 }); $s1 = s[1]; $s2 = s[2]; $s3 = s[3];
t = sort({"p": $p, "q": $q, "r": $r}, func(ak, av, bk, bv) { return (bv - av) / 4 }); $t1 = t[[[1]]]; $t3 = t[[[3]]]`))
	p, q, r := verifInt64("p"), verifInt64("q"), verifInt64("r")
	verifAssume(p >= 0 && p <= 3 && q >= 0 && q <= 3 && r >= 0 && r <= 3)
	rec := mlrval.NewMlrmapAsRecord()
	rec.PutReference("p", mlrval.FromInt(p))
	rec.PutReference("q", mlrval.FromInt(q))
	rec.PutReference("r", mlrval.FromInt(r))
	out := verifPutRun(tr, []*mlrval.Mlrmap{rec})
	verifAssert(len(out) == 1, "C09/dsl-sort-func/one-record")
	if len(out) != 1 {
		return
	}
	lo, mid, hi := p, q, r
	if lo > mid {
		lo, mid = mid, lo
	}
	if mid > hi {
		mid, hi = hi, mid
	}
	if lo > mid {
		lo, mid = mid, lo
	}
	c14IntIs(out[0], "s1", lo, "C09/dsl-sort-func/array-ascending-by-the-sign-of-the-comparator")
	c14IntIs(out[0], "s2", mid, "C09/dsl-sort-func/array-ascending-by-the-sign-of-the-comparator")
	c14IntIs(out[0], "s3", hi, "C09/dsl-sort-func/array-ascending-by-the-sign-of-the-comparator")
	c14IntIs(out[0], "t1", hi, "C09/dsl-sort-func/map-descending-by-value")
	c14IntIs(out[0], "t3", lo, "C09/dsl-sort-func/map-descending-by-value")
	verifReach("C09/dsl-sort-func/end")
}

// sort-within-records: the record's own fields come out in ascending lexical key order, every
// value unchanged; with -r ("recursively sorts subobjects/submaps") the same holds for EVERY map at
// EVERY depth, however few keys the maps above it have.  Shapes: the record has 1..3 top-level
// fields with symbolic one-byte keys; one of them holds a chain of 0..2 single- or two-key maps
// ending in a two-key map with symbolic keys.
func c09MapSorted(m *mlrval.Mlrmap, recursive bool, label string) {
	for pe := m.Head; pe != nil; pe = pe.Next {
		if pe.Next != nil {
			verifAssert(pe.Key <= pe.Next.Key, label+"/keys-ascending")
		}
		if sub := pe.Value.GetMap(); sub != nil && recursive {
			c09MapSorted(sub, true, label+"/nested")
		}
	}
}

//verif:opts engine-only maxpaths=100000 unwind=200
func VerifC09_sort_within_records() {
	recursive := verifChoice("recursive", 2) == 1
	k1, k2 := verifString("leaf_key", 1), verifString("leaf_key", 1)
	verifAssume(k1 != k2 && k1 != "m" && k2 != "m") // "m" is the chain link the oracle walks
	leaf := mlrval.NewMlrmap()
	leaf.PutReference(k1, mlrval.FromInt(1))
	leaf.PutReference(k2, mlrval.FromInt(2))
	inner := mlrval.FromMap(leaf)
	for d := verifChoice("chain_depth", 3); d > 0; d-- {
		wrap := mlrval.NewMlrmap()
		if verifChoice("chain_link_keys", 2) == 1 {
			wrap.PutReference("z", mlrval.FromInt(9))
		}
		wrap.PutReference("m", inner)
		inner = mlrval.FromMap(wrap)
	}
	rec := mlrval.NewMlrmapAsRecord()
	n := 1 + verifChoice("top_fields", 3)
	t1, t2 := verifString("top_key", 1), verifString("top_key", 1)
	verifAssume(t1 != t2 && t1 != "n" && t2 != "n")
	if n >= 2 {
		rec.PutReference(t1, mlrval.FromString("p"))
	}
	rec.PutReference("n", inner)
	if n >= 3 {
		rec.PutReference(t2, mlrval.FromString("q"))
	}
	argv := []string{"sort-within-records"}
	if recursive {
		argv = append(argv, "-r")
	}
	out := verifPutRunAny(verifVerb(argv...), rec)
	verifAssert(len(out) == 1, "C09/sort-within-records/one-record-out")
	if len(out) != 1 {
		return
	}
	verifAssert(out[0].FieldCount == int64(n), "C09/sort-within-records/same-fields")
	c09MapSorted(out[0], recursive, "C09/sort-within-records")
	// values unchanged: the leaf is reachable by the same path and holds the same two entries
	v := out[0].Get("n")
	verifAssert(v != nil, "C09/sort-within-records/values-kept")
	for v != nil && v.GetMap() != nil && v.GetMap().Has("m") {
		v = v.GetMap().Get("m")
	}
	if v != nil && v.GetMap() != nil {
		a, b := v.GetMap().Get(k1), v.GetMap().Get(k2)
		verifAssert(v.GetMap().FieldCount == 2 && a != nil && b != nil && a.String() == "1" && b.String() == "2", "C09/sort-within-records/values-kept")
	} else {
		verifAssert(false, "C09/sort-within-records/values-kept")
	}
	if p := out[0].Get(t1); n >= 2 {
		verifAssert(p != nil && p.String() == "p", "C09/sort-within-records/values-kept")
	}
	verifReach("C09/sort-within-records/end")
}
