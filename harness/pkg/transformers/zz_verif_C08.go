//go:build verif

package transformers

// C08 at the DSL level — the statements run through the REAL put verb: real CST builder
// (cst.RootNode.Build on the AST of the snippet, pre-parsed by the real parser at check time), real
// evaluator nodes (operator/dot/function call sites, assignment nodes for fields, out-of-stream
// variables, locals and map elements), real runtime.State.  Field operands are missing, empty, a
// symbolic int or a string, chosen per path.
//  * absent is the identity of accumulation for the operators as written in the DSL (. + * min max
//    bitwise), from either side; absent op absent assigns nothing;
//  * an assignment whose right-hand side is absent is skipped and never creates a key — fields,
//    out-of-stream variables, locals, map elements;
//  * @sum[$a] += $x accumulates from an unset variable and ignores records lacking the field.

import (
	"github.com/johnkerl/miller/v6/pkg/cli"
	"github.com/johnkerl/miller/v6/pkg/dsl/cst"
	"github.com/johnkerl/miller/v6/pkg/mlrval"
	"github.com/johnkerl/miller/v6/pkg/types"
)

func verifPut(dsl string) *TransformerPut {
	if verifEngine() {
		// the parser's tables are outside every claim: the engine looks the AST up in the table that
		// the check generated from the real parser; natively the real parser runs
		verifReplace("github.com/johnkerl/miller/v6/pkg/dsl/cst.buildASTFromString", verifParseFromTable)
	}
	tr, err := NewTransformerPut(false, []string{dsl}, cst.DSLInstanceTypePut, nil,
		false, false, false, false, false, false, false, false, false, false, false, cli.DefaultOptions())
	verifAssert(err == nil && tr != nil, "dsl/put-constructed")
	return tr
}

// runs the records through the verb and returns the emitted records
func verifPutRun(tr *TransformerPut, recs []*mlrval.Mlrmap) []*mlrval.Mlrmap {
	ctx := types.NewContext()
	idc, odc := make(chan bool, 1), make(chan bool, 8)
	out := []*types.RecordAndContext{}
	for _, r := range recs {
		ctx.UpdateForInputRecord()
		verifAssert(tr.Transform(types.NewRecordAndContext(r, ctx), &out, idc, odc) == nil, "dsl/transform-ok")
	}
	verifAssert(tr.Transform(types.NewEndOfStreamMarker(ctx), &out, idc, odc) == nil, "dsl/end-ok")
	var res []*mlrval.Mlrmap
	for _, o := range out {
		if o.Record != nil {
			res = append(res, o.Record)
		}
	}
	return res
}

const (
	c08Missing = iota
	c08Empty
	c08Int
	c08Str
)

// puts field `name` of the chosen kind into rec; returns the kind and the int payload
func c08Field(rec *mlrval.Mlrmap, name string) (int, int64) {
	k := verifChoice(name+"_kind", 4)
	var v int64
	switch k {
	case c08Empty:
		rec.PutReference(name, mlrval.FromInferredType(""))
	case c08Int:
		v = verifInt64(name + "_i")
		verifAssume(v > -30 && v < 30) // narrow: texts of these ints are completely concretised when formatted
		rec.PutReference(name, mlrval.FromInt(v))
	case c08Str:
		rec.PutReference(name, mlrval.FromInferredType("abc"))
	}
	return k, v
}

func c08SameAsField(out *mlrval.Mlrmap, z string, kind int, v int64, asText bool) bool {
	got := out.Get(z)
	switch kind {
	case c08Missing:
		return got == nil
	case c08Empty:
		return got != nil && got.IsVoid()
	case c08Int:
		if got == nil {
			return false
		}
		if asText { // dot is concatenation: the same TEXT
			return got.String() == mlrval.FromInt(v).String()
		}
		i, ok := got.GetIntValue()
		return ok && i == v
	}
	return got != nil && got.String() == "abc"
}

// absent op x == x, x op absent == x, absent op absent assigns nothing — operators as written in the DSL
func VerifC08_dsl_absent_is_identity() {
	snippets := []string{
		verifDSL(`$z = $x . $y`),
		verifDSL(`$z = $x + $y`),
		verifDSL(`$z = $x * $y`),
		verifDSL(`$z = $x - $y`),
		verifDSL(`$z = min($x, $y)`),
		verifDSL(`$z = max($x, $y)`),
		verifDSL(`$z = $x | $y`),
		verifDSL(`$z = $x ^ $y`),
		verifDSL(`$z = $x & $y`),
		verifDSL(`$z = $x .+ $y`),
		verifDSL(`$z = $x .* $y`),
	}
	which := verifChoice("statement", len(snippets))
	tr := verifPut(snippets[which])
	rec := mlrval.NewMlrmapAsRecord()
	kx, vx := c08Field(rec, "x")
	ky, vy := c08Field(rec, "y")
	out := verifPutRun(tr, []*mlrval.Mlrmap{rec})
	verifAssert(len(out) == 1, "C08/dsl/one-record-out")
	if len(out) != 1 {
		return
	}
	// "x" in the rule is a number for the arithmetic/bitwise/min/max operators (the null-data
	// reference tabulates empty-with-absent as absent, and text with + as an error) and any present
	// value for dot
	isDot := which == 0
	applies := func(k int) bool { return k == c08Int || (isDot && k != c08Missing) }
	if kx == c08Missing && ky == c08Missing {
		verifAssert(out[0].Get("z") == nil, "C08/dsl/absent-op-absent-assigns-nothing")
	} else if kx == c08Missing && applies(ky) {
		verifAssert(c08SameAsField(out[0], "z", ky, vy, isDot), "C08/dsl/absent-op-x-is-x")
	} else if ky == c08Missing && applies(kx) {
		verifAssert(c08SameAsField(out[0], "z", kx, vx, isDot), "C08/dsl/x-op-absent-is-x")
	}
	verifReach("C08/dsl/identity/end")
}

// an assignment whose right-hand side is absent is skipped and never creates a key
func VerifC08_dsl_absent_assignment_is_skipped() {
	type tc struct {
		dsl   string
		check func(out *mlrval.Mlrmap, present bool)
	}
	cases := []tc{
		{verifDSL(`$z = $x`), func(out *mlrval.Mlrmap, present bool) {
			verifAssert((out.Get("z") != nil) == present, "C08/dsl/assign/field-key-created-iff-rhs-present")
		}},
		{verifDSL(`$z = 7; $z = $x`), func(out *mlrval.Mlrmap, present bool) {
			z := out.Get("z")
			verifAssert(z != nil, "C08/dsl/assign/existing-field-kept")
			if z != nil && !present {
				verifAssert(z.String() == "7", "C08/dsl/assign/existing-field-not-overwritten-by-absent")
			}
		}},
		{verifDSL(`@v = $x; $p = is_present(@v); $n = length(@*)`), func(out *mlrval.Mlrmap, present bool) {
			want, wantN := "false", "0"
			if present {
				want, wantN = "true", "1"
			}
			verifAssert(out.Get("p") != nil && out.Get("p").String() == want, "C08/dsl/assign/oosvar-created-iff-rhs-present")
			verifAssert(out.Get("n") != nil && out.Get("n").String() == wantN, "C08/dsl/assign/no-oosvar-key-from-absent")
		}},
		{verifDSL(`var l = 1; l = $x; $l = l`), func(out *mlrval.Mlrmap, present bool) {
			l := out.Get("l")
			verifAssert(l != nil, "C08/dsl/assign/local-still-defined")
			if l != nil && !present {
				verifAssert(l.String() == "1", "C08/dsl/assign/local-not-overwritten-by-absent")
			}
		}},
		{verifDSL(`m = {}; m[1] = $x; $n = length(m)`), func(out *mlrval.Mlrmap, present bool) {
			want := "0"
			if present {
				want = "1"
			}
			verifAssert(out.Get("n") != nil && out.Get("n").String() == want, "C08/dsl/assign/map-element-created-iff-rhs-present")
		}},
		{verifDSL(`@m[1][2] = $x; $n = length(@m)`), func(out *mlrval.Mlrmap, present bool) {
			want := "0"
			if present {
				want = "1"
			}
			verifAssert(out.Get("n") != nil && out.Get("n").String() == want, "C08/dsl/assign/nested-oosvar-element-created-iff-rhs-present")
		}},
		{verifDSL(`$*  = mapsum($*, {"w": $x})`), func(out *mlrval.Mlrmap, present bool) {
			verifAssert((out.Get("w") != nil) == present, "C08/dsl/assign/map-literal-entry-from-absent-is-dropped")
		}},
	}
	which := verifChoice("statement", len(cases))
	tr := verifPut(cases[which].dsl)
	rec := mlrval.NewMlrmapAsRecord()
	rec.PutReference("a", mlrval.FromInt(1))
	kx, _ := c08Field(rec, "x")
	out := verifPutRun(tr, []*mlrval.Mlrmap{rec})
	verifAssert(len(out) == 1, "C08/dsl/one-record-out")
	if len(out) == 1 {
		cases[which].check(out[0], kx != c08Missing)
	}
	verifReach("C08/dsl/assign/end")
}

// @sum[$a] += $x from an unset variable, ignoring records lacking the field
func VerifC08_dsl_accumulate_from_unset() {
	tr := verifPut(verifDSL(`@sum[$a] += $x; @count[$a] += 1; end { emit @count, "a"; emit @sum, "a" }`))
	var recs []*mlrval.Mlrmap
	want := int64(0)
	nWith := 0
	for i := 0; i < 3; i++ {
		rec := mlrval.NewMlrmapAsRecord()
		rec.PutReference("a", mlrval.FromString("g"))
		if verifBool("has_x") {
			v := verifInt64("x")
			verifAssume(v > -1000 && v < 1000)
			rec.PutReference("x", mlrval.FromInt(v))
			want += v
			nWith++
		}
		recs = append(recs, rec)
	}
	out := verifPutRun(tr, recs)
	// 3 pass-through records, then {a:g,count:3}, then {a:g,sum:...} if any record had the field
	wantN := 4
	if nWith > 0 {
		wantN = 5
	}
	verifAssert(len(out) == wantN, "C08/dsl/accumulate/records-out")
	if len(out) == wantN {
		c := out[3].Get("count")
		verifAssert(c != nil && c.String() == "3", "C08/dsl/accumulate/count-from-unset")
		if nWith > 0 {
			s := out[4].Get("sum")
			verifAssert(s != nil, "C08/dsl/accumulate/sum-present")
			if s != nil {
				i, ok := s.GetIntValue()
				verifAssert(ok && i == want, "C08/dsl/accumulate/sum-ignores-records-lacking-the-field")
			}
		}
	}
	verifReach("C08/dsl/accumulate/end")
}

// one record through any verb; the emitted records
func verifPutRunAny(tr RecordTransformer, rec *mlrval.Mlrmap) []*mlrval.Mlrmap {
	ctx := types.NewContext()
	idc, odc := make(chan bool, 1), make(chan bool, 8)
	out := []*types.RecordAndContext{}
	verifAssert(tr.Transform(types.NewRecordAndContext(rec, ctx), &out, idc, odc) == nil, "verb/transform-ok")
	tr.Transform(types.NewEndOfStreamMarker(ctx), &out, idc, odc)
	var res []*mlrval.Mlrmap
	for _, o := range out {
		if o.Record != nil {
			res = append(res, o.Record)
		}
	}
	return res
}
