//go:build verif

package transformers

// C17 — the E-post-before-EOS lemma at the level of the verb's goroutine: the real
// runSingleTransformer runs as a coroutine on real channels, the verb fails at a symbolic call, and
// the chain-to-writer channel (capacity 1, as ChainTransformer makes it) may already be full (the
// writer is behind).  At the moment the batch carrying the end-of-stream marker becomes visible
// downstream — which is what lets the writer finish and stream.Stream return — the error must
// already be buffered on the error channel; and the upstream is told to stop.

import (
	"errors"

	"github.com/johnkerl/miller/v6/pkg/cli"
	"github.com/johnkerl/miller/v6/pkg/mlrval"
	"github.com/johnkerl/miller/v6/pkg/types"
)

type c17FailingVerb struct {
	failAt int
	calls  int
}

func (v *c17FailingVerb) Transform(in *types.RecordAndContext, out *[]*types.RecordAndContext, idc <-chan bool, odc chan<- bool) error {
	me := v.calls
	v.calls++
	if me == v.failAt {
		return errors.New("verb failed")
	}
	*out = append(*out, in)
	return nil
}

//verif:opts engine-only
func VerifC17_runner_error_buffered_before_eos() {
	ctx := types.NewContext()
	nbatches := 1 + verifChoice("batches", 2)
	perBatch := 1 + verifChoice("records_per_batch", 2)
	total := nbatches*perBatch + 1 // + the end-of-stream marker
	verb := &c17FailingVerb{failAt: verifChoice("fail_at", total+1)} // == total: never fails
	fails := verb.failAt < total
	writerBehind := verifChoice("writer_behind", 2) == 1

	in := make(chan []*types.RecordAndContext, 4)
	out := make(chan []*types.RecordAndContext, 1)
	idc, odc := make(chan bool, 1), make(chan bool, 1)
	errCh := make(chan error, 1)
	if writerBehind {
		out <- []*types.RecordAndContext{} // a batch the writer has not taken yet
	}
	verifPreemptAfterSend(true) // the verb's goroutine may be descheduled right after any send completes
	go runSingleTransformer(verb, true, in, out, idc, odc, errCh, &cli.TOptions{})

	// the reader side: everything is handed over up front
	sent := 0
	for b := 0; b < nbatches; b++ {
		var batch []*types.RecordAndContext
		for i := 0; i < perBatch; i++ {
			rec := mlrval.NewMlrmapAsRecord()
			rec.PutReference("id", mlrval.FromInt(int64(sent)))
			sent++
			batch = append(batch, types.NewRecordAndContext(rec, ctx))
		}
		in <- batch
	}
	in <- types.NewEndOfStreamMarkerList(ctx)
	// the writer side: blocking receives; each one is a point where the verb's goroutine runs
	sawEOS := false
	for k := 0; k < 8 && !sawEOS; k++ {
		b := <-out
		for _, rac := range b {
			if rac.EndOfStream {
				sawEOS = true
				if fails {
					verifAssert(len(errCh) == 1, "C17/runner/error-buffered-when-eos-becomes-visible")
				} else {
					verifAssert(len(errCh) == 0, "C17/runner/no-spurious-error")
				}
			}
		}
	}
	verifYield()
	verifAssert(sawEOS, "C17/runner/end-of-stream-marker-forwarded-even-after-a-failure")
	if fails {
		verifAssert(len(odc) == 1, "C17/runner/upstream-told-to-stop-after-a-failure")
	}
	verifReach("C17/runner/end")
}
