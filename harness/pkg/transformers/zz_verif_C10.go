//go:build verif

package transformers

// C10 at the verb level — counting/statistics/stepping verbs, built from their REAL command lines,
// equal a recomputation from the definition over the same records.  Three records; per record the
// group-by field g is missing or one symbolic byte, the value field x is missing or a symbolic int
// in [-4,4] (so group membership, ties and signs are decided by the solver per path).  A record
// lacking a group-by or value field is left out of that accumulation only; groups come out in
// first-appearance order; sums/min/max of ints stay ints; counts add up.
// Empty values are not fed to top/stats1 here (how an empty value ranks is the collation question
// recorded under C08-max-empty).

import (
	"github.com/johnkerl/miller/v6/pkg/mlrval"
	"github.com/johnkerl/miller/v6/pkg/types"
)

type c10Rec struct {
	hasG, hasX bool
	g          string
	x          int64
}

func c10Inputs(n int) []c10Rec {
	var rs []c10Rec
	for i := 0; i < n; i++ {
		var r c10Rec
		if verifBool("has_g") {
			r.hasG = true
			r.g = verifString("g", 1)
		}
		if verifBool("has_x") {
			r.hasX = true
			r.x = verifInt64("x")
			verifAssume(r.x >= -4 && r.x <= 4)
		}
		rs = append(rs, r)
	}
	return rs
}

func c10Run(tr RecordTransformer, in []c10Rec) []*mlrval.Mlrmap {
	ctx := types.NewContext()
	idc, odc := make(chan bool, 1), make(chan bool, 8)
	out := []*types.RecordAndContext{}
	for i, r := range in {
		rec := mlrval.NewMlrmapAsRecord()
		rec.PutReference("id", mlrval.FromInt(int64(i)))
		if r.hasG {
			rec.PutReference("g", mlrval.FromString(r.g))
		}
		if r.hasX {
			rec.PutReference("x", mlrval.FromInt(r.x))
		}
		verifAssert(tr.Transform(types.NewRecordAndContext(rec, ctx), &out, idc, odc) == nil, "C10/verb/transform-ok")
	}
	verifAssert(tr.Transform(types.NewEndOfStreamMarker(ctx), &out, idc, odc) == nil, "C10/verb/end-ok")
	var res []*mlrval.Mlrmap
	for _, o := range out {
		if o.Record != nil {
			res = append(res, o.Record)
		}
	}
	return res
}

// groups in first-appearance order among the records accepted by `want`
type c10Group struct {
	g    string
	idxs []int
}

func c10Groups(in []c10Rec, want func(r c10Rec) bool) []c10Group {
	var gs []c10Group
	for i, r := range in {
		if !want(r) {
			continue
		}
		found := false
		for k := range gs {
			if gs[k].g == r.g {
				gs[k].idxs = append(gs[k].idxs, i)
				found = true
				break
			}
		}
		if !found {
			gs = append(gs, c10Group{r.g, []int{i}})
		}
	}
	return gs
}

func c10IntField(r *mlrval.Mlrmap, k string) (int64, bool) {
	v := r.Get(k)
	if v == nil {
		return 0, false
	}
	return v.GetIntValue()
}

func c10StrField(r *mlrval.Mlrmap, k string) (string, bool) {
	v := r.Get(k)
	if v == nil {
		return "", false
	}
	return v.String(), true
}

func c10IntIs(r *mlrval.Mlrmap, k string, want int64, label string) {
	got, ok := c10IntField(r, k)
	verifAssert(ok && got == want, label)
}

func c10GIs(r *mlrval.Mlrmap, want string, label string) {
	got, ok := c10StrField(r, "g")
	verifAssert(ok && got == want, label)
}

func VerifC10_counting_verbs() {
	in := c10Inputs(3)
	hasG := func(r c10Rec) bool { return r.hasG }
	gs := c10Groups(in, hasG)
	nWithG := 0
	for _, r := range in {
		if r.hasG {
			nWithG++
		}
	}
	switch verifChoice("verb", 6) {
	case 0:
		out := c10Run(verifVerb("count", "-g", "g"), in)
		verifAssert(len(out) == len(gs), "C10/count/one-record-per-group")
		total := int64(0)
		for k := 0; k < len(out) && k < len(gs); k++ {
			c10GIs(out[k], gs[k].g, "C10/count/groups-in-first-appearance-order")
			c10IntIs(out[k], "count", int64(len(gs[k].idxs)), "C10/count/group-size")
			c, _ := c10IntField(out[k], "count")
			total += c
		}
		verifAssert(total == int64(nWithG), "C10/count/counts-add-up-to-the-contributing-records")
	case 1:
		out := c10Run(verifVerb("count-distinct", "-f", "g"), in)
		verifAssert(len(out) == len(gs), "C10/count-distinct/one-record-per-distinct-value")
		for k := 0; k < len(out) && k < len(gs); k++ {
			c10GIs(out[k], gs[k].g, "C10/count-distinct/first-appearance-order")
			c10IntIs(out[k], "count", int64(len(gs[k].idxs)), "C10/count-distinct/count")
		}
	case 2:
		// count-similar: records grouped together in first-appearance group order, input order
		// within a group, each with its group's size appended; records lacking g left out
		out := c10Run(verifVerb("count-similar", "-g", "g"), in)
		verifAssert(len(out) == nWithG, "C10/count-similar/records-with-the-field")
		p := 0
		for _, g := range gs {
			for _, i := range g.idxs {
				if p < len(out) {
					c10IntIs(out[p], "id", int64(i), "C10/count-similar/grouped-in-first-appearance-order")
					c10IntIs(out[p], "count", int64(len(g.idxs)), "C10/count-similar/group-size-on-every-record")
				}
				p++
			}
		}
	case 3:
		out := c10Run(verifVerb("uniq", "-g", "g", "-c"), in)
		verifAssert(len(out) == len(gs), "C10/uniq-c/one-record-per-group")
		for k := 0; k < len(out) && k < len(gs); k++ {
			c10GIs(out[k], gs[k].g, "C10/uniq-c/first-appearance-order")
			c10IntIs(out[k], "count", int64(len(gs[k].idxs)), "C10/uniq-c/count")
		}
	case 4:
		out := c10Run(verifVerb("uniq", "-g", "g", "-n"), in)
		verifAssert(len(out) == 1, "C10/uniq-n/one-record")
		if len(out) == 1 {
			c10IntIs(out[0], "count", int64(len(gs)), "C10/uniq-n/number-of-distinct-groups")
		}
	case 5:
		// most-frequent: groups by descending count; equal counts keep first-appearance order
		out := c10Run(verifVerb("most-frequent", "-f", "g"), in)
		verifAssert(len(out) == len(gs), "C10/most-frequent/one-record-per-value")
		prev := int64(1 << 40)
		total := int64(0)
		for k := 0; k < len(out); k++ {
			c, ok := c10IntField(out[k], "count")
			verifAssert(ok && c <= prev, "C10/most-frequent/descending-counts")
			prev = c
			total += c
			g, _ := c10StrField(out[k], "g")
			n := 0
			for _, r := range in {
				if r.hasG && r.g == g {
					n++
				}
			}
			verifAssert(int64(n) == c && n > 0, "C10/most-frequent/count-is-the-value's-frequency")
		}
		verifAssert(total == int64(nWithG), "C10/most-frequent/counts-add-up")
	}
	verifReach("C10/verbs/counting/end")
}

func VerifC10_stats_and_step_verbs() {
	in := c10Inputs(3)
	both := func(r c10Rec) bool { return r.hasG && r.hasX }
	gs := c10Groups(in, both)
	switch verifChoice("verb", 4) {
	case 0:
		// a group appears as soon as a record has the group-by field; a record lacking x is left out of
		// x's accumulation only (a group none of whose records has x comes out without statistics)
		out := c10Run(verifVerb("stats1", "-a", "count,sum,min,max,mean,p50", "-f", "x", "-g", "g"), in)
		// groups with at least one value, in first-appearance order of the group-by field; whether a
		// group none of whose records has x also yields a (statistics-free) record is not fixed by the
		// statement: such records are skipped here
		all := c10Groups(in, func(r c10Rec) bool { return r.hasG })
		var valued []c10Group
		for _, a := range all {
			g := c10Group{g: a.g}
			for _, i := range a.idxs {
				if in[i].hasX {
					g.idxs = append(g.idxs, i)
				}
			}
			if len(g.idxs) > 0 {
				valued = append(valued, g)
			}
		}
		var outv []*mlrval.Mlrmap
		for _, o := range out {
			if o.Get("x_count") != nil || o.Get("x_sum") != nil {
				outv = append(outv, o)
			} else {
				verifAssert(o.Get("g") != nil && o.FieldCount == 1, "C10/stats1/a-record-without-statistics-is-a-bare-group")
			}
		}
		out = outv
		verifAssert(len(out) == len(valued), "C10/stats1/one-record-per-group-with-values")
		for k := 0; k < len(out) && k < len(valued); k++ {
			g := valued[k]
			c10GIs(out[k], g.g, "C10/stats1/groups-in-first-appearance-order")
			sum, mn, mx := int64(0), int64(99), int64(-99)
			var vals []int64
			for _, i := range g.idxs {
				v := in[i].x
				sum += v
				if v < mn {
					mn = v
				}
				if v > mx {
					mx = v
				}
				vals = append(vals, v)
			}
			for a := 0; a < len(vals); a++ {
				for b := a + 1; b < len(vals); b++ {
					if vals[b] < vals[a] {
						vals[a], vals[b] = vals[b], vals[a]
					}
				}
			}
			n := len(vals)
			c10IntIs(out[k], "x_count", int64(n), "C10/stats1/count")
			c10IntIs(out[k], "x_sum", sum, "C10/stats1/sum-of-ints-is-an-exact-int")
			c10IntIs(out[k], "x_min", mn, "C10/stats1/min-of-ints-is-an-int")
			c10IntIs(out[k], "x_max", mx, "C10/stats1/max-of-ints-is-an-int")
			c10IntIs(out[k], "x_p50", vals[n/2], "C10/stats1/p50-is-the-order-statistic")
			m := out[k].Get("x_mean")
			verifAssert(m != nil, "C10/stats1/mean-present")
			if m != nil {
				f, ok := m.GetNumericToFloatValue()
				verifAssert(ok && f == float64(sum)/float64(n), "C10/stats1/mean-is-sum-over-count")
			}
		}
	case 1:
		out := c10Run(verifVerb("top", "-n", "1", "-f", "x", "-g", "g"), in)
		verifAssert(len(out) == len(gs), "C10/top/one-record-per-group")
		for k := 0; k < len(out) && k < len(gs); k++ {
			c10GIs(out[k], gs[k].g, "C10/top/groups-in-first-appearance-order")
			mx := int64(-99)
			for _, i := range gs[k].idxs {
				if in[i].x > mx {
					mx = in[i].x
				}
			}
			t := out[k].Get("x_top")
			verifAssert(t != nil, "C10/top/value-present")
			if t != nil {
				f, ok := t.GetNumericToFloatValue()
				verifAssert(ok && f == float64(mx), "C10/top/largest-value-of-the-group")
			}
			c10IntIs(out[k], "top_idx", 1, "C10/top/index")
		}
	case 2:
		// step: one output per input record in input order; records lacking g or x pass through
		out := c10Run(verifVerb("step", "-a", "delta,shift,counter,rsum", "-f", "x", "-g", "g"), in)
		verifAssert(len(out) == len(in), "C10/step/one-record-out-per-record-in")
		for i := 0; i < len(out) && i < len(in); i++ {
			c10IntIs(out[i], "id", int64(i), "C10/step/input-order")
			if !both(in[i]) {
				verifAssert(out[i].Get("x_delta") == nil && out[i].Get("x_rsum") == nil, "C10/step/records-lacking-a-field-are-left-alone")
				continue
			}
			// the previous record of the same group
			// delta/shift look at the group's previous record; when that record lacks x the tree
			// deliberately restarts them (step.go: "so they don't carry stale state") and the
			// statement does not fix that case, so it is asserted only without such a gap
			prev, havePrev, gap, rsum, cnt := int64(0), false, false, int64(0), int64(0)
			for j := 0; j <= i; j++ {
				if in[j].hasG && in[j].g == in[i].g {
					if j < i {
						if in[j].hasX {
							prev, havePrev, gap = in[j].x, true, false
						} else {
							gap = true
						}
					}
					if in[j].hasX {
						rsum += in[j].x
						cnt++
					}
				}
			}
			if havePrev && !gap {
				c10IntIs(out[i], "x_delta", in[i].x-prev, "C10/step/delta-from-the-group's-previous-record")
				c10IntIs(out[i], "x_shift", prev, "C10/step/shift-is-the-group's-previous-value")
			} else if !havePrev {
				c10IntIs(out[i], "x_delta", 0, "C10/step/first-delta-is-zero")
				// (what the first shift shows — empty, a dash — is not fixed by the statement)
			}
			c10IntIs(out[i], "x_counter", cnt, "C10/step/counter-counts-the-group's-records")
			c10IntIs(out[i], "x_rsum", rsum, "C10/step/running-sum-of-the-group")
		}
	case 3:
		// fill-down -a (only if absent) on x: the last value seen, per stream (no grouping)
		out := c10Run(verifVerb("fill-down", "-a", "-f", "x"), in)
		verifAssert(len(out) == len(in), "C10/fill-down/one-record-out-per-record-in")
		last, haveLast := int64(0), false
		for i := 0; i < len(out) && i < len(in); i++ {
			if in[i].hasX {
				c10IntIs(out[i], "x", in[i].x, "C10/fill-down/present-value-untouched")
				last, haveLast = in[i].x, true
			} else if haveLast {
				c10IntIs(out[i], "x", last, "C10/fill-down/absent-filled-from-the-previous-record")
			} else {
				verifAssert(out[i].Get("x") == nil, "C10/fill-down/nothing-to-fill-from")
			}
		}
	}
	verifReach("C10/verbs/stats/end")
}

// stats1 mode / antimode over TEXT values with ties: the most (least) frequent value, the
// first-encountered one among those tied — four records so that a later-seen value can reach the
// tying count first (a,b,b,a).
func VerifC10_stats1_mode_ties() {
	var vals []string
	var recs [][]c12KV
	for i := 0; i < 4; i++ {
		v := []string{"a", "b", "c"}[verifChoice("value", 3)]
		vals = append(vals, v)
		recs = append(recs, []c12KV{{"v", v}})
	}
	out := c12Run(verifVerb("stats1", "-a", "mode,antimode,count,distinct_count", "-f", "v"), recs)
	verifAssert(len(out) == 1, "C10/mode/one-record")
	if len(out) != 1 {
		return
	}
	count := func(v string) int {
		n := 0
		for _, w := range vals {
			if w == v {
				n++
			}
		}
		return n
	}
	mode, anti := vals[0], vals[0]
	for _, v := range vals { // first-encountered wins ties: strict comparisons in input order
		if count(v) > count(mode) {
			mode = v
		}
		if count(v) < count(anti) {
			anti = v
		}
	}
	m, _ := c12Get(out[0], "v_mode")
	a, _ := c12Get(out[0], "v_antimode")
	verifAssert(m == mode, "C10/mode/most-frequent-first-encountered-on-ties")
	verifAssert(a == anti, "C10/antimode/least-frequent-first-encountered-on-ties")
	verifReach("C10/mode/end")
}

// merge-fields (by name prefix -f, and collapse mode -c) over two records: every record's output
// statistics are those of that record's own fields, whatever came before
func VerifC10_merge_fields_per_record() {
	collapse := verifChoice("collapse", 2) == 1
	var recs [][]c12KV
	var xs [][2]int64
	for i := 0; i < 2; i++ {
		p, q := verifInt64("p"), verifInt64("q")
		verifAssume(p >= -4 && p <= 4 && q >= -4 && q <= 4)
		xs = append(xs, [2]int64{p, q})
		recs = append(recs, nil)
	}
	// records are built with int values directly
	tr := verifVerb("merge-fields", "-a", "p50,count,sum,max", "-f", "a_in_x,a_out_x", "-o", "ab")
	if collapse {
		tr = verifVerb("merge-fields", "-a", "p50,count,sum,max", "-c", "_in_,_out_")
	}
	var in []*mlrval.Mlrmap
	for i := range recs {
		rec := mlrval.NewMlrmapAsRecord()
		rec.PutReference("a_in_x", mlrval.FromInt(xs[i][0]))
		rec.PutReference("a_out_x", mlrval.FromInt(xs[i][1]))
		rec.PutReference("other", mlrval.FromInt(int64(i)))
		in = append(in, rec)
	}
	ctx := types.NewContext()
	idc, odc := make(chan bool, 1), make(chan bool, 8)
	out := []*types.RecordAndContext{}
	for _, r := range in {
		verifAssert(tr.Transform(types.NewRecordAndContext(r, ctx), &out, idc, odc) == nil, "C10/merge-fields/transform-ok")
	}
	tr.Transform(types.NewEndOfStreamMarker(ctx), &out, idc, odc)
	verifAssert(len(out) == 3, "C10/merge-fields/one-record-out-per-record-in")
	name := "ab"
	if collapse {
		name = "ax"
	}
	for i := 0; i < 2 && i < len(out); i++ {
		r := out[i].Record
		p, q := xs[i][0], xs[i][1]
		mx := p
		if q > mx {
			mx = q
		}
		c10IntIs(r, name+"_count", 2, "C10/merge-fields/count-of-this-record's-fields")
		c10IntIs(r, name+"_sum", p+q, "C10/merge-fields/sum-of-this-record's-fields")
		c10IntIs(r, name+"_max", mx, "C10/merge-fields/max-of-this-record's-fields")
		c10IntIs(r, name+"_p50", mx, "C10/merge-fields/median-of-this-record's-fields")
		c10IntIs(r, "other", int64(i), "C10/merge-fields/other-fields-untouched")
	}
	verifReach("C10/merge-fields/end")
}

// groups are formed by the EXACT texts of the group-by fields: with two group-by fields whose
// values are symbolic (two bytes and one byte, commas included) two records fall into one group iff
// both texts are equal — ("a,b","c") and ("a","b,c") are different groups
func VerifC10_two_field_groups() {
	g1, h1 := verifString("g1", verifChoice("g1_len", 3)), verifString("h1", verifChoice("h1_len", 3))
	g2, h2 := verifString("g2", verifChoice("g2_len", 3)), verifString("h2", verifChoice("h2_len", 3))
	recs := [][]c12KV{{{"g", g1}, {"h", h1}}, {{"g", g2}, {"h", h2}}}
	verb := [][]string{{"count", "-g", "g,h"}, {"count-distinct", "-f", "g,h"}, {"head", "-n", "1", "-g", "g,h"}}[verifChoice("verb", 3)]
	ctx := types.NewContext()
	idc, odc := make(chan bool, 1), make(chan bool, 8)
	out := []*types.RecordAndContext{}
	tr := verifVerb(verb...)
	for _, r := range recs {
		rec := mlrval.NewMlrmapAsRecord()
		for _, kv := range r {
			rec.PutReference(kv.k, mlrval.FromString(kv.v))
		}
		verifAssert(tr.Transform(types.NewRecordAndContext(rec, ctx), &out, idc, odc) == nil, "C10/groups2/transform-ok")
	}
	tr.Transform(types.NewEndOfStreamMarker(ctx), &out, idc, odc)
	n := 0
	for _, o := range out {
		if o.Record != nil {
			n++
		}
	}
	same := g1 == g2 && h1 == h2
	if same {
		verifAssert(n == 1, "C10/groups2/equal-texts-one-group")
	} else {
		verifAssert(n == 2, "C10/groups2/different-texts-different-groups")
	}
	verifReach("C10/groups2/end")
}

// fraction (plain and cumulative) and histogram with explicit bounds, three records with symbolic
// small ints: every record's fraction is its value (cumulative: the running total up to and
// including it) over the total; every value in [lo, hi] falls in exactly one bin (hi itself in the
// last one), values outside in none, bins tile [lo, hi).
func VerifC10_fraction_and_histogram() {
	var xs []int64
	var recs []*mlrval.Mlrmap
	for i := 0; i < 3; i++ {
		x := verifInt64("x")
		verifAssume(x >= -1 && x <= 5)
		x = verifConcretize(x, 16) // (every value of the range, enumerated by the solver: the quotients are floats)
		xs = append(xs, x)
		r := mlrval.NewMlrmapAsRecord()
		r.PutReference("x", mlrval.FromInt(x))
		recs = append(recs, r)
	}
	run := func(tr RecordTransformer) []*mlrval.Mlrmap {
		ctx := types.NewContext()
		idc, odc := make(chan bool, 1), make(chan bool, 8)
		out := []*types.RecordAndContext{}
		for _, r := range recs {
			verifAssert(tr.Transform(types.NewRecordAndContext(r, ctx), &out, idc, odc) == nil, "C10/fraction-histogram/transform-ok")
		}
		tr.Transform(types.NewEndOfStreamMarker(ctx), &out, idc, odc)
		var res []*mlrval.Mlrmap
		for _, o := range out {
			if o.Record != nil {
				res = append(res, o.Record)
			}
		}
		return res
	}
	switch verifChoice("verb", 3) {
	case 0, 1:
		cumulative := verifChoice("cumulative", 2) == 1
		sum := xs[0] + xs[1] + xs[2]
		verifAssume(xs[0] >= 0 && xs[1] >= 0 && xs[2] >= 0 && sum > 0)
		argv := []string{"fraction", "-f", "x"}
		name := "x_fraction"
		if cumulative {
			argv, name = append(argv, "-c"), "x_cumulative_fraction"
		}
		out := run(verifVerb(argv...))
		verifAssert(len(out) == 3, "C10/fraction/one-record-out-per-record-in")
		cum := int64(0)
		for i := 0; i < len(out) && i < 3; i++ {
			cum += xs[i]
			num := xs[i]
			if cumulative {
				num = cum
			}
			v := out[i].Get(name)
			verifAssert(v != nil, "C10/fraction/field-present")
			if v != nil {
				f, ok := v.GetNumericToFloatValue()
				verifAssert(ok && f == float64(num)/float64(sum), "C10/fraction/value-over-total")
			}
		}
	case 2:
		out := run(verifVerb("histogram", "-f", "x", "--lo", "0", "--hi", "4", "--nbins", "2"))
		verifAssert(len(out) == 2, "C10/histogram/one-record-per-bin")
		want := []int64{0, 0}
		for _, x := range xs {
			if x >= 0 && x < 2 {
				want[0]++
			} else if x >= 2 && x <= 4 {
				want[1]++
			}
		}
		for b := 0; b < len(out) && b < 2; b++ {
			c10IntIs(out[b], "x_count", want[b], "C10/histogram/bin-count-with-hi-in-the-last-bin")
			lo := out[b].Get("bin_lo")
			verifAssert(lo != nil, "C10/histogram/bin-bounds-present")
			if lo != nil {
				f, ok := lo.GetNumericToFloatValue()
				verifAssert(ok && f == float64(2*b), "C10/histogram/bins-tile-the-range")
			}
		}
	}
	verifReach("C10/fraction-histogram/end")
}
