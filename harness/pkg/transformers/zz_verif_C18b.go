//go:build verif

package transformers

// C18 — record-dependent DSL constructs where there is NO current record (begin and end blocks,
// and `mlr -n`): field reads and writes, $*, positional names and values, NF, unset, filter, emit
// of $*, map-valued copies of the record.  The documented meaning is "absent"/"skipped"; whatever
// the result, it must not be a panic.  Zero or one record precedes the end of stream.

import (
	"github.com/johnkerl/miller/v6/pkg/cli"
	"github.com/johnkerl/miller/v6/pkg/dsl/cst"
	"github.com/johnkerl/miller/v6/pkg/mlrval"
	"github.com/johnkerl/miller/v6/pkg/types"
)

//verif:opts engine-only maxpaths=50000 unwind=200
func VerifC18_dsl_record_constructs_without_a_record() {
	progs := []string{
		verifDSL(`end { @a = NF; emit @a }`),
		verifDSL(`begin { @a = NF } end { emit @a }`),
		verifDSL(`end { print NF . ":" . NR . ":" . FNR . ":" . FILENAME . ":" . FILENUM }`),
		verifDSL(`begin { print NF . ":" . NR . ":" . FNR . ":" . FILENAME . ":" . FILENUM }`),
		verifDSL(`begin { $x = 1 } end { $y = 2 }`),
		verifDSL(`begin { @r = $* } end { @s = $*; emit @s }`),
		verifDSL(`end { $* = {"a": 1} }`),
		verifDSL(`begin { unset $x } end { unset $*; unset $x }`),
		verifDSL(`end { @a = $[[1]]; @b = $[[[1]]]; emit (@a, @b) }`),
		verifDSL(`end { $[[1]] = "a"; $[[[1]]] = 3 }`),
		verifDSL(`begin { filter false } end { filter true }`),
		verifDSL(`end { emit $* }`),
		verifDSL(`end { emit mapsum($*, {"k": 1}) }`),
		verifDSL(`end { for (k, v in $*) { @c[k] = v } emit @c }`),
		verifDSL(`end { unset @*; unset all; emit @* }`),
		verifDSL(`begin { @m = M_PI > 3; @i = IPS . IFS . IRS . OPS . OFS . ORS . FLATSEP } end { emit @m }`),
	}
	// (programs the CST builder refuses statically — "begin/end blocks cannot refer to records via
	// $x, $*, etc" — are a refusal, which is fine; the others run)
	if verifEngine() {
		verifReplace("github.com/johnkerl/miller/v6/pkg/dsl/cst.buildASTFromString", verifParseFromTable)
	}
	tr, err := NewTransformerPut(false, []string{progs[verifChoice("program", len(progs))]}, cst.DSLInstanceTypePut, nil,
		false, false, false, false, false, false, false, false, false, false, false, cli.DefaultOptions())
	if err != nil || tr == nil {
		verifReach("C18/dsl/no-record/refused-statically")
		return
	}
	var recs []*mlrval.Mlrmap
	if verifChoice("records", 2) == 1 {
		recs = append(recs, c14Record(1))
	}
	// a data error or an `mlr:` exit is fine here (it ends the path normally); a panic is the violation
	ctx := types.NewContext()
	idc, odc := make(chan bool, 1), make(chan bool, 8)
	out := []*types.RecordAndContext{}
	for _, r := range recs {
		ctx.UpdateForInputRecord()
		if tr.Transform(types.NewRecordAndContext(r, ctx), &out, idc, odc) != nil {
			verifReach("C18/dsl/no-record/data-error")
			return
		}
	}
	tr.Transform(types.NewEndOfStreamMarker(ctx), &out, idc, odc)
	verifReach("C18/dsl/no-record/end")
}
