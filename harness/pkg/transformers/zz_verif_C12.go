//go:build verif

package transformers

// C12 at the verb level — field-editing verbs change only the fields they name.  Each verb is
// built from its REAL command-line parser (LookUp(verb).ParseCLIFunc on an argv) and its real
// Transform is run over a stream of three records; every record has the field k (a concrete
// identity) and any subset of a, b, c (presence symbolic per record and field) with symbolic
// one-byte values, in an order that is itself chosen per record (a,b,c or c,b,a around k).
// Oracles are list manipulations written from the statement / the verb's usage text.

import (
	"github.com/johnkerl/miller/v6/pkg/bifs"
	"github.com/johnkerl/miller/v6/pkg/cli"
	"github.com/johnkerl/miller/v6/pkg/mlrval"
	"github.com/johnkerl/miller/v6/pkg/types"
)

type c12KV struct{ k, v string }

func verifVerb(args ...string) RecordTransformer {
	setup := LookUp(args[0])
	verifAssert(setup != nil, "verb/known")
	argi := 0
	tr, err := setup.ParseCLIFunc(&argi, len(args), args, cli.DefaultOptions(), true)
	verifAssert(err == nil && tr != nil && argi == len(args), "verb/constructed-from-its-command-line")
	return tr
}

func c12Inputs(n int) [][]c12KV { return c12InputsOpt(n, true) }

// how present values are chosen: 0 one symbolic byte, 1 the constant "v", 2 one of "v"/"w"
var c12ValueMode = 0

func c12InputsOpt(n int, allowEmpty bool) [][]c12KV {
	var recs [][]c12KV
	for i := 0; i < n; i++ {
		var r []c12KV
		names := []string{"a", "b", "c"}
		if allowEmpty && verifChoice("reversed", 2) == 1 {
			names = []string{"c", "b", "a"}
		}
		for j, nm := range names {
			if j == 1 {
				r = append(r, c12KV{"k", "id" + string(rune('0'+i))})
			}
			nk := 3
			if !allowEmpty {
				nk = 2
			}
			switch verifChoice("field", nk) {
			case 1:
				switch c12ValueMode {
				case 1:
					r = append(r, c12KV{nm, "v"})
				case 2:
					r = append(r, c12KV{nm, []string{"v", "w"}[verifChoice("value", 2)]})
				default:
					r = append(r, c12KV{nm, verifString("v", 1)})
				}
			case 2:
				r = append(r, c12KV{nm, ""})
			}
		}
		recs = append(recs, r)
	}
	return recs
}

func c12Run(tr RecordTransformer, in [][]c12KV) [][]c12KV {
	ctx := types.NewContext()
	idc, odc := make(chan bool, 1), make(chan bool, 8)
	out := []*types.RecordAndContext{}
	for _, r := range in {
		rec := mlrval.NewMlrmapAsRecord()
		for _, kv := range r {
			rec.PutReference(kv.k, mlrval.FromDeferredType(kv.v))
		}
		verifAssert(tr.Transform(types.NewRecordAndContext(rec, ctx), &out, idc, odc) == nil, "C12/verb/transform-ok")
	}
	verifAssert(tr.Transform(types.NewEndOfStreamMarker(ctx), &out, idc, odc) == nil, "C12/verb/end-ok")
	var res [][]c12KV
	for _, o := range out {
		if o.Record == nil {
			continue
		}
		var r []c12KV
		for pe := o.Record.Head; pe != nil; pe = pe.Next {
			r = append(r, c12KV{pe.Key, pe.Value.String()})
		}
		res = append(res, r)
	}
	return res
}

func c12Same(a, b []c12KV) bool {
	if len(a) != len(b) {
		return false
	}
	for i := range a {
		if a[i].k != b[i].k || a[i].v != b[i].v {
			return false
		}
	}
	return true
}

func c12In(k string, set []string) bool {
	for _, s := range set {
		if s == k {
			return true
		}
	}
	return false
}

func c12Get(r []c12KV, k string) (string, bool) {
	for _, kv := range r {
		if kv.k == k {
			return kv.v, true
		}
	}
	return "", false
}

// the per-record verbs: expected output computed record by record
func VerifC12_per_record_verbs() {
	in := c12Inputs(2)
	type tc struct {
		argv []string
		want func(r []c12KV) []c12KV
	}
	keep := func(set []string, complement bool) func(r []c12KV) []c12KV {
		return func(r []c12KV) []c12KV {
			var o []c12KV
			for _, kv := range r {
				if c12In(kv.k, set) != complement {
					o = append(o, kv)
				}
			}
			return o
		}
	}
	cases := []tc{
		{[]string{"cut", "-f", "a,c"}, keep([]string{"a", "c"}, false)},
		{[]string{"cut", "-x", "-f", "a,c"}, keep([]string{"a", "c"}, true)},
		{[]string{"cut", "-o", "-f", "c,a"}, func(r []c12KV) []c12KV {
			var o []c12KV
			for _, k := range []string{"c", "a"} {
				if v, ok := c12Get(r, k); ok {
					o = append(o, c12KV{k, v})
				}
			}
			return o
		}},
		{[]string{"rename", "a,z"}, func(r []c12KV) []c12KV {
			var o []c12KV
			for _, kv := range r {
				if kv.k == "a" {
					kv.k = "z"
				}
				o = append(o, kv)
			}
			return o
		}},
		{[]string{"reorder", "-f", "c"}, func(r []c12KV) []c12KV {
			var o []c12KV
			if v, ok := c12Get(r, "c"); ok {
				o = append(o, c12KV{"c", v})
			}
			return append(o, keep([]string{"c"}, true)(r)...)
		}},
		{[]string{"reorder", "-e", "-f", "a"}, func(r []c12KV) []c12KV {
			o := keep([]string{"a"}, true)(r)
			if v, ok := c12Get(r, "a"); ok {
				o = append(o, c12KV{"a", v})
			}
			return o
		}},
		{[]string{"sort-within-records"}, func(r []c12KV) []c12KV {
			var o []c12KV
			for _, k := range []string{"a", "b", "c", "k"} {
				if v, ok := c12Get(r, k); ok {
					o = append(o, c12KV{k, v})
				}
			}
			return o
		}},
		{[]string{"fill-empty", "-v", "X"}, func(r []c12KV) []c12KV {
			var o []c12KV
			for _, kv := range r {
				if kv.v == "" {
					kv.v = "X"
				}
				o = append(o, kv)
			}
			return o
		}},
		{[]string{"sparsify"}, func(r []c12KV) []c12KV {
			var o []c12KV
			for _, kv := range r {
				if kv.v != "" {
					o = append(o, kv)
				}
			}
			return o
		}},
		{[]string{"template", "-f", "c,z,a"}, func(r []c12KV) []c12KV {
			var o []c12KV
			for _, k := range []string{"c", "z", "a"} {
				v, _ := c12Get(r, k)
				o = append(o, c12KV{k, v})
			}
			return o
		}},
		{[]string{"unsparsify", "-f", "a,z"}, func(r []c12KV) []c12KV {
			o := append([]c12KV{}, r...)
			for _, k := range []string{"a", "z"} {
				if _, ok := c12Get(r, k); !ok {
					o = append(o, c12KV{k, ""})
				}
			}
			return o
		}},
	}
	c := cases[verifChoice("verb", len(cases))]
	out := c12Run(verifVerb(c.argv...), in)
	verifAssert(len(out) == len(in), "C12/verb/one-record-out-per-record-in")
	for i := 0; i < len(out) && i < len(in); i++ {
		verifAssert(c12Same(out[i], c.want(in[i])), "C12/verb/only-the-named-fields-change")
	}
	verifReach("C12/verb/per-record/end")
}

// unsparsify (non-streaming): rectangular over the union of keys in first-seen order, existing
// values intact, the filler elsewhere; regularize: a record whose key SET was seen before takes
// that earlier order, values travelling with their keys.
func VerifC12_unsparsify_and_regularize() {
	in := c12InputsOpt(3, false)
	if verifChoice("verb", 2) == 0 {
		out := c12Run(verifVerb("unsparsify", "--fill-with", "F"), in)
		var union []string
		for _, r := range in {
			for _, kv := range r {
				if !c12In(kv.k, union) {
					union = append(union, kv.k)
				}
			}
		}
		verifAssert(len(out) == len(in), "C12/unsparsify/one-record-out-per-record-in")
		for i := 0; i < len(out) && i < len(in); i++ {
			var want []c12KV
			for _, k := range union {
				v, ok := c12Get(in[i], k)
				if !ok {
					v = "F"
				}
				want = append(want, c12KV{k, v})
			}
			verifAssert(c12Same(out[i], want), "C12/unsparsify/rectangular-over-the-union-in-first-seen-order")
		}
	} else {
		out := c12Run(verifVerb("regularize"), in)
		verifAssert(len(out) == len(in), "C12/regularize/one-record-out-per-record-in")
		for i := 0; i < len(out) && i < len(in); i++ {
			// the first earlier record with the same key set dictates the order
			order := in[i]
			for j := 0; j < i; j++ {
				if len(in[j]) == len(in[i]) {
					all := true
					for _, kv := range in[i] {
						if _, ok := c12Get(in[j], kv.k); !ok {
							all = false
						}
					}
					if all {
						order = in[j]
						break
					}
				}
			}
			var want []c12KV
			for _, kv := range order {
				v, _ := c12Get(in[i], kv.k)
				want = append(want, c12KV{kv.k, v})
			}
			verifAssert(c12Same(out[i], want), "C12/regularize/first-seen-order-of-the-same-key-set")
		}
	}
	verifReach("C12/verb/stream/end")
}

// cut -f F and cut -x -f F are complementary; rename a,z then rename z,a is the identity (z new)
func VerifC12_complement_and_inverse_pairs() {
	in := c12Inputs(1)
	switch verifChoice("law", 2) {
	case 0:
		yes := c12Run(verifVerb("cut", "-f", "b,k"), in)
		no := c12Run(verifVerb("cut", "-x", "-f", "b,k"), in)
		verifAssert(len(yes) == 1 && len(no) == 1, "C12/cut/one-record-each")
		if len(yes) == 1 && len(no) == 1 {
			verifAssert(len(yes[0])+len(no[0]) == len(in[0]), "C12/cut/complementary-sizes")
			for _, kv := range in[0] {
				v1, in1 := c12Get(yes[0], kv.k)
				v2, in2 := c12Get(no[0], kv.k)
				verifAssert(in1 != in2, "C12/cut/every-field-in-exactly-one-part")
				if in1 {
					verifAssert(v1 == kv.v, "C12/cut/value-intact")
				}
				if in2 {
					verifAssert(v2 == kv.v, "C12/cut/value-intact")
				}
			}
		}
	case 1:
		mid := c12Run(verifVerb("rename", "a,z"), in)
		back := c12Run(verifVerb("rename", "z,a"), mid)
		verifAssert(len(back) == 1 && c12Same(back[0], in[0]), "C12/rename/there-and-back-is-the-identity")
	}
	verifReach("C12/verb/laws/end")
}

// nest explode/implode across records are inverse, and leave records whose field has nothing to
// split (one piece, the empty value, no such field) unchanged; the sub/gsub/ssub verbs rewrite only
// the values of the fields they name (by name list, and by -r with Miller's regex-literal forms).
func VerifC12_nest_and_sub_verbs() {
	var in [][]c12KV
	for i := 0; i < 2; i++ {
		r := []c12KV{{"k", "id" + string(rune('0'+i))}}
		switch verifChoice("a_value", 4) {
		case 0:
			r = append(r, c12KV{"a", "v"})
		case 1:
			r = append(r, c12KV{"a", ""})
		case 2:
			r = append(r, c12KV{"a", "v;w"})
		}
		if verifBool("has_B") {
			r = append(r, c12KV{"B", "vov"})
		}
		r = append(r, c12KV{"c", "ovo"})
		in = append(in, r)
	}
	switch verifChoice("verb", 5) {
	case 0:
		mid := c12Run(verifVerb("nest", "--explode", "--values", "--across-records", "-f", "a", "--nested-fs", ";"), in)
		// one record per piece; a record with nothing to split passes unchanged
		p := 0
		for _, r := range in {
			v, has := c12Get(r, "a")
			pieces := []string{v}
			if has && v == "v;w" {
				pieces = []string{"v", "w"}
			}
			for _, piece := range pieces {
				verifAssert(p < len(mid), "C12/nest/explode-one-record-per-piece")
				if p < len(mid) {
					var want []c12KV
					for _, kv := range r {
						if kv.k == "a" {
							kv.v = piece
						}
						want = append(want, kv)
					}
					verifAssert(c12Same(mid[p], want), "C12/nest/explode-changes-only-the-named-field")
				}
				p++
			}
		}
		verifAssert(p == len(mid), "C12/nest/explode-record-count")
		back := c12Run(verifVerb("nest", "--implode", "--values", "--across-records", "-f", "a", "--nested-fs", ";"), mid)
		verifAssert(len(back) == len(in), "C12/nest/implode-inverts-explode-count")
		// (records lacking the field pass through at once, imploded ones come at the end of the
		// stream: the same records, in input order when every record has the field)
		allHave := true
		for _, r := range in {
			if _, has := c12Get(r, "a"); !has {
				allHave = false
			}
		}
		for i := 0; i < len(back) && i < len(in); i++ {
			if allHave {
				verifAssert(c12Same(back[i], in[i]), "C12/nest/implode-inverts-explode")
			} else {
				n := 0
				for _, b := range back {
					if c12Same(b, in[i]) {
						n++
					}
				}
				verifAssert(n == 1, "C12/nest/implode-inverts-explode-as-a-set")
			}
		}
	default:
		argvs := [][]string{
			{"gsub", "-f", "a,c", "v", "X"},
			{"sub", "-f", "c,B", "o", "X"},
			{"ssub", "-f", "B", "vo", "X"},
			{"gsub", "-r", "-f", "\"^b\"i,\"^C\"i", "v", "X"},
		}
		which := verifChoice("argv", len(argvs))
		named := [][]string{{"a", "c"}, {"c", "B"}, {"B"}, {"B", "c"}}[which]
		rewrite := []func(string) string{
			func(s string) string { return c12ReplaceAll(s, "v", "X", -1) },
			func(s string) string { return c12ReplaceAll(s, "o", "X", 1) },
			func(s string) string { return c12ReplaceAll(s, "vo", "X", 1) },
			func(s string) string { return c12ReplaceAll(s, "v", "X", -1) },
		}[which]
		out := c12Run(verifVerb(argvs[which]...), in)
		verifAssert(len(out) == len(in), "C12/sub-verbs/one-record-out-per-record-in")
		for i := 0; i < len(out) && i < len(in); i++ {
			var want []c12KV
			for _, kv := range in[i] {
				if c12In(kv.k, named) {
					kv.v = rewrite(kv.v)
				}
				want = append(want, kv)
			}
			verifAssert(c12Same(out[i], want), "C12/sub-verbs/only-the-named-fields-are-rewritten")
		}
	}
	verifReach("C12/nest-sub/end")
}

// plain substring replacement (n < 0: all occurrences)
func c12ReplaceAll(s, old, new string, n int) string {
	out := ""
	for i := 0; i < len(s); {
		if n != 0 && i+len(old) <= len(s) && s[i:i+len(old)] == old {
			out += new
			i += len(old)
			if n > 0 {
				n--
			}
		} else {
			out += string(s[i])
			i++
		}
	}
	return out
}

// C02 at the verb level — the flatten and unflatten verbs (built from their real command lines) are
// inverse on records holding nested maps, arrays and EMPTY maps/arrays (the "{}" / "[]" markers),
// with the default and a non-default separator, with and without -f.
func VerifC02_flatten_unflatten_verbs() {
	sep := []string{".", ":"}[verifChoice("sep", 2)]
	rec := mlrval.NewMlrmapAsRecord()
	rec.PutReference("p", mlrval.FromInt(1))
	shape := verifChoice("x_shape", 5)
	switch shape {
	case 0:
		rec.PutReference("x", mlrval.FromMap(mlrval.NewMlrmap()))
	case 1:
		rec.PutReference("x", mlrval.FromArray([]*mlrval.Mlrval{}))
	case 2:
		m := mlrval.NewMlrmap()
		m.PutReference("k", mlrval.FromInt(5))
		rec.PutReference("x", mlrval.FromMap(m))
	case 3:
		rec.PutReference("x", mlrval.FromArray([]*mlrval.Mlrval{mlrval.FromInt(5), mlrval.FromMap(mlrval.NewMlrmap())}))
	case 4:
		m := mlrval.NewMlrmap()
		m.PutReference("e", mlrval.FromArray([]*mlrval.Mlrval{}))
		m.PutReference("k", mlrval.FromString("v"))
		rec.PutReference("x", mlrval.FromMap(m))
	}
	if verifBool("second_nested_field") {
		m := mlrval.NewMlrmap()
		m.PutReference("z", mlrval.FromInt(7))
		rec.PutReference("y", mlrval.FromMap(m))
	}
	orig := rec.Copy()
	fargs, uargs := []string{"flatten", "-s", sep}, []string{"unflatten", "-s", sep}
	if verifChoice("with_f", 2) == 1 {
		fargs, uargs = append(fargs, "-f", "x,y"), append(uargs, "-f", "x,y")
	}
	flat := verifPutRunAny(verifVerb(fargs...), rec)
	verifAssert(len(flat) == 1, "C02/verbs/flatten-one-record")
	if len(flat) != 1 {
		return
	}
	for pe := flat[0].Head; pe != nil; pe = pe.Next {
		verifAssert(!pe.Value.IsArrayOrMap(), "C02/verbs/flatten-output-is-flat")
	}
	back := verifPutRunAny(verifVerb(uargs...), flat[0])
	verifAssert(len(back) == 1, "C02/verbs/unflatten-one-record")
	if len(back) == 1 {
		verifAssert(c02SameValue(mlrval.FromMap(orig), mlrval.FromMap(back[0])), "C02/verbs/unflatten-inverts-flatten")
	}
	verifReach("C02/verbs/end")
}

func c02SameValue(a, b *mlrval.Mlrval) bool {
	if a.IsMap() != b.IsMap() || a.IsArray() != b.IsArray() {
		return false
	}
	if a.IsMap() {
		ma, mb := a.AcquireMapValue(), b.AcquireMapValue()
		if ma.FieldCount != mb.FieldCount {
			return false
		}
		pb := mb.Head
		for pa := ma.Head; pa != nil; pa, pb = pa.Next, pb.Next {
			if pb == nil || pa.Key != pb.Key || !c02SameValue(pa.Value, pb.Value) {
				return false
			}
		}
		return true
	}
	if a.IsArray() {
		aa, ab := a.AcquireArrayValue(), b.AcquireArrayValue()
		if len(aa) != len(ab) {
			return false
		}
		for i := range aa {
			if !c02SameValue(aa[i], ab[i]) {
				return false
			}
		}
		return true
	}
	return a.String() == b.String()
}

// C16 at the verb level — the sec2gmt and sec2gmtdate verbs equal the functions applied to the named
// fields and leave non-numeric values unchanged; strftime with fractional-second formats agrees with
// sec2gmt on the same instant, negative and far-away times included.  Instants: a symbolic offset in
// one of a palette of windows (enumerated by the solver), as int, as float with a quarter fraction,
// or the field is text / empty.
func VerifC16_sec2gmt_verbs_equal_the_functions() {
	bases := []int64{-30, 951782370, -2203891230, 32503680000 - 30, -11670998430, 253402300740, 9223372036 - 30}
	b := bases[verifChoice("window", len(bases))]
	off := verifInt64("offset")
	verifAssume(off >= 0 && off < 60)
	x := verifConcretize(b+off, 64)
	var field *mlrval.Mlrval
	kind := verifChoice("kind", 5)
	switch kind {
	case 0:
		field = mlrval.FromInt(x)
	case 1:
		field = mlrval.FromFloat(float64(x) + 0.25)
	case 2:
		field = mlrval.FromFloat(float64(x) + 0.75)
	case 3:
		field = mlrval.FromString("abc")
	case 4:
		field = mlrval.FromDeferredType("")
	}
	verb := verifChoice("verb", 4)
	rec := mlrval.NewMlrmapAsRecord()
	rec.PutReference("t", field.Copy())
	rec.PutReference("other", mlrval.FromInt(x))
	var argv []string
	var want *mlrval.Mlrval
	switch verb {
	case 0:
		argv, want = []string{"sec2gmt", "t"}, bifs.BIF_sec2gmt_unary(field)
	case 1:
		argv, want = []string{"sec2gmt", "-3", "t"}, bifs.BIF_sec2gmt_binary(field, mlrval.FromInt(3))
	case 2:
		argv, want = []string{"sec2gmtdate", "t"}, bifs.BIF_sec2gmtdate(field)
	case 3:
		argv, want = []string{"sec2gmt", "-6", "t,nosuch"}, bifs.BIF_sec2gmt_binary(field, mlrval.FromInt(6))
	}
	out := verifPutRunAny(verifVerb(argv...), rec)
	verifAssert(len(out) == 1, "C16/verbs/one-record")
	if len(out) == 1 {
		got := out[0].Get("t")
		verifAssert(got != nil && got.String() == want.String(), "C16/verbs/verb-equals-the-function-on-the-named-field")
		if kind >= 3 {
			verifAssert(got != nil && got.String() == field.String(), "C16/verbs/non-numeric-left-unchanged")
		}
		o := out[0].Get("other")
		verifAssert(o != nil && o.String() == mlrval.FromInt(x).String(), "C16/verbs/other-fields-untouched")
	}
	if kind == 1 || kind == 2 {
		a := bifs.BIF_strftime(field, mlrval.FromString("%Y-%m-%dT%H:%M:%3SZ"))
		b3 := bifs.BIF_sec2gmt_binary(field, mlrval.FromInt(3))
		verifAssert(a.String() == b3.String(), "C16/strftime/fractional-seconds-agree-with-sec2gmt")
	}
	verifReach("C16/verbs/end")
}

// reshape wide-to-long then long-to-wide gives back the same records (as a set: long-to-wide emits at
// end of stream), also when consecutive records carry the same values under DIFFERENT other-field
// names.
func VerifC12_reshape_inverse() {
	var in [][]c12KV
	for i := 0; i < 2; i++ {
		other := []string{"id", "name"}[verifChoice("other_field", 2)]
		r := []c12KV{{other, []string{"1", "2"}[verifChoice("other_value", 2)]}, {"x", []string{"3", "4"}[verifChoice("x", 2)]}}
		if verifBool("has_y") {
			r = append(r, c12KV{"y", "5"})
		}
		in = append(in, r)
	}
	// two records that are identical would be merged by long-to-wide: not an inverse case
	verifAssume(!(in[0][0].k == in[1][0].k && in[0][0].v == in[1][0].v))
	long := c12Run(verifVerb("reshape", "-i", "x,y", "-o", "k,v"), in)
	back := c12Run(verifVerb("reshape", "-s", "k,v"), long)
	verifAssert(len(back) == len(in), "C12/reshape/inverse-record-count")
	for _, r := range in {
		n := 0
		for _, b := range back {
			if c12Same(b, r) {
				n++
			}
		}
		verifAssert(n == 1, "C12/reshape/long-to-wide-inverts-wide-to-long")
	}
	verifReach("C12/reshape/end")
}

// sparsify with a filler (-s) and a field list (-f): exactly the named fields whose value IS the
// filler are removed (one record; present values are "v", "w" or empty)
func VerifC12_sparsify_filler_and_field_list() {
	c12ValueMode = 2
	in := c12InputsOpt(1, true)
	c12ValueMode = 0
	type tc struct {
		argv []string
		want func(r []c12KV) []c12KV
	}
	cases := []tc{
		{[]string{"sparsify", "-s", "v"}, func(r []c12KV) []c12KV {
			var o []c12KV
			for _, kv := range r {
				if kv.v != "v" {
					o = append(o, kv)
				}
			}
			return o
		}},
		{[]string{"sparsify", "-s", "v", "-f", "a,c"}, func(r []c12KV) []c12KV {
			var o []c12KV
			for _, kv := range r {
				if !((kv.k == "a" || kv.k == "c") && kv.v == "v") {
					o = append(o, kv)
				}
			}
			return o
		}},
		{[]string{"sparsify", "-f", "a,c"}, func(r []c12KV) []c12KV {
			var o []c12KV
			for _, kv := range r {
				if !((kv.k == "a" || kv.k == "c") && kv.v == "") {
					o = append(o, kv)
				}
			}
			return o
		}},
	}
	c := cases[verifChoice("argv", len(cases))]
	out := c12Run(verifVerb(c.argv...), in)
	verifAssert(len(out) == 1 && c12Same(out[0], c.want(in[0])), "C12/sparsify/only-named-fields-holding-the-filler-are-removed")
	verifReach("C12/sparsify/end")
}
