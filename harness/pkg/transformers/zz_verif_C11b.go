//go:build verif

package transformers

// C11 at the verb level, the selecting verbs that need the DSL or field-name logic: filter /
// filter -x (real put_or_filter verb on pre-parsed expressions), having-fields, uniq -a, grep -v.
// Three records with a, b, c present / empty / missing symbolically (c12Inputs); every output
// record must be one of the input records, unchanged, in input order.

import (
	"github.com/johnkerl/miller/v6/pkg/mlrval"
)

// which input records were passed through (by the identity field k), requiring them unchanged
func c11Passed(in, out [][]c12KV) []int {
	var idx []int
	p := 0
	for _, o := range out {
		found := -1
		for i := p; i < len(in); i++ {
			if c12Same(in[i], o) {
				found = i
				break
			}
		}
		verifAssert(found >= 0, "C11/verb/output-is-an-unchanged-input-record-in-input-order")
		if found < 0 {
			return idx
		}
		idx = append(idx, found)
		p = found + 1
	}
	return idx
}

func c11Has(idx []int, i int) bool {
	for _, j := range idx {
		if j == i {
			return true
		}
	}
	return false
}

func VerifC11_filter_partitions() {
	c12ValueMode = 2
	in := c12InputsOpt(2, true)
	c12ValueMode = 0
	exprs := []string{
		verifDSL(`$a == "v"`),
		verifDSL(`is_present($a) && is_empty($b)`),
		verifDSL(`NF >= 3`),
		verifDSL(`$a < $c`),
		verifDSL(`is_absent($b)`),
		verifDSL(`$nosuch == 1`),
		verifDSL(`true`),
		verifDSL(`$a =~ "^[a-v]$"`),
	}
	e := exprs[verifChoice("expression", len(exprs))]
	if verifEngine() {
		verifReplace("github.com/johnkerl/miller/v6/pkg/dsl/cst.buildASTFromString", verifParseFromTable)
	}
	yes := c11Passed(in, c12Run(verifVerb("filter", e), in))
	no := c11Passed(in, c12Run(verifVerb("filter", "-x", e), in))
	verifAssert(len(yes)+len(no) == len(in), "C11/filter/filter-and-filter-x-partition-the-input")
	for i := range in {
		verifAssert(c11Has(yes, i) != c11Has(no, i), "C11/filter/every-record-in-exactly-one-part")
	}
	verifReach("C11/filter/end")
}

func VerifC11_having_fields_uniq_grep() {
	c12ValueMode = 2
	in := c12InputsOpt(2, false)
	c12ValueMode = 0
	has := func(r []c12KV, k string) bool { _, ok := c12Get(r, k); return ok }
	switch verifChoice("verb", 8) {
	case 7:
		// uniq -a -n / -a -c: the number of DISTINCT records (names and values), and each distinct
		// record once with its repeat count
		var plain [][]c12KV
		in = append(in, in[verifChoice("third_record_repeats", 2)])
		for _, r := range in {
			var q []c12KV
			for _, kv := range r {
				if kv.k == "k" {
					kv.v = "same"
				}
				q = append(q, kv)
			}
			plain = append(plain, q)
		}
		var distinct [][]c12KV
		var counts []int
		for _, r := range plain {
			found := false
			for d := range distinct {
				if c12Same(distinct[d], r) {
					counts[d]++
					found = true
				}
			}
			if !found {
				distinct = append(distinct, r)
				counts = append(counts, 1)
			}
		}
		n := c12Run(verifVerb("uniq", "-a", "-n"), plain)
		verifAssert(len(n) == 1 && len(n[0]) == 1 && n[0][0].k == "count" && n[0][0].v == string(rune('0'+len(distinct))), "C11/uniq-a-n/number-of-distinct-records")
		c := c12Run(verifVerb("uniq", "-a", "-c"), plain)
		verifAssert(len(c) == len(distinct), "C11/uniq-a-c/one-record-per-distinct-record")
		for d := 0; d < len(c) && d < len(distinct); d++ {
			verifAssert(len(c[d]) >= 1 && c[d][0].k == "count" && c[d][0].v == string(rune('0'+counts[d])), "C11/uniq-a-c/repeat-count-first")
			verifAssert(c12Same(c[d][1:], distinct[d]), "C11/uniq-a-c/the-distinct-record-unchanged")
		}
	case 0:
		got := c11Passed(in, c12Run(verifVerb("having-fields", "--at-least", "a,c"), in))
		for i, r := range in {
			verifAssert(c11Has(got, i) == (has(r, "a") && has(r, "c")), "C11/having-fields/at-least")
		}
	case 1:
		got := c11Passed(in, c12Run(verifVerb("having-fields", "--which-are", "a,k"), in))
		for i, r := range in {
			verifAssert(c11Has(got, i) == (has(r, "a") && len(r) == 2), "C11/having-fields/which-are")
		}
	case 2:
		got := c11Passed(in, c12Run(verifVerb("having-fields", "--at-most", "a,b,k"), in))
		for i, r := range in {
			verifAssert(c11Has(got, i) == !has(r, "c"), "C11/having-fields/at-most")
		}
	case 3:
		got := c11Passed(in, c12Run(verifVerb("having-fields", "--any-matching", "^[ab]$"), in))
		for i, r := range in {
			verifAssert(c11Has(got, i) == (has(r, "a") || has(r, "b")), "C11/having-fields/any-matching")
		}
	case 4:
		got := c11Passed(in, c12Run(verifVerb("having-fields", "--none-matching", "^c$"), in))
		for i, r := range in {
			verifAssert(c11Has(got, i) == !has(r, "c"), "C11/having-fields/none-matching")
		}
	case 5:
		// uniq -a: each distinct record once, at its first appearance (the identity field is given
		// the same value everywhere first, so that records can repeat)
		var plain [][]c12KV
		in = append(in, in[verifChoice("third_record_repeats", 2)]) // a third record repeating one of the two
		for _, r := range in {
			var q []c12KV
			for _, kv := range r {
				if kv.k == "k" {
					kv.v = "same"
				}
				q = append(q, kv)
			}
			plain = append(plain, q)
		}
		out := c12Run(verifVerb("uniq", "-a"), plain)
		var want [][]c12KV
		for i, r := range plain {
			first := true
			for j := 0; j < i; j++ {
				if c12Same(plain[j], r) {
					first = false
				}
			}
			if first {
				want = append(want, r)
			}
		}
		verifAssert(len(out) == len(want), "C11/uniq-a/one-record-per-distinct-record")
		for i := 0; i < len(out) && i < len(want); i++ {
			verifAssert(c12Same(out[i], want[i]), "C11/uniq-a/first-appearances-in-input-order")
		}
	case 6:
		yes := c11Passed(in, c12Run(verifVerb("grep", "a="), in))
		no := c11Passed(in, c12Run(verifVerb("grep", "-v", "a="), in))
		verifAssert(len(yes)+len(no) == len(in), "C11/grep/grep-and-grep-v-partition-the-input")
		for i, r := range in {
			verifAssert(c11Has(yes, i) != c11Has(no, i), "C11/grep/every-record-in-exactly-one-part")
			if r[0].k == "a" {
				verifAssert(c11Has(yes, i), "C11/grep/record-whose-text-starts-with-the-pattern-passes")
			}
		}
	}
	verifReach("C11/verbs-b/end")
}

var _ = mlrval.FromInt

// grep passes records through UNCHANGED also when they carry nested values
func VerifC11_grep_leaves_nested_values_alone() {
	inner := mlrval.NewMlrmap()
	inner.PutReference("x", mlrval.FromInt(3))
	rec := mlrval.NewMlrmapAsRecord()
	rec.PutReference("a", mlrval.FromString("v"))
	rec.PutReference("m", mlrval.FromMap(inner))
	rec.PutReference("t", mlrval.FromArray([]*mlrval.Mlrval{mlrval.FromInt(1), mlrval.FromInt(2)}))
	invert := verifBool("invert")
	tr := verifVerb("grep", "nosuch")
	if invert {
		tr = verifVerb("grep", "-v", "nosuch")
	} else {
		tr = verifVerb("grep", "a=v")
	}
	out := verifPutRunAny(tr, rec)
	verifAssert(len(out) == 1, "C11/grep-nested/record-passes")
	if len(out) == 1 {
		r := out[0]
		verifAssert(r.FieldCount == 3 && r.Get("m") != nil && r.Get("m").IsMap() && r.Get("t") != nil && r.Get("t").IsArray(),
			"C11/grep-nested/nested-values-still-nested")
		verifAssert(r.Get("m.x") == nil && r.Get("t.1") == nil, "C11/grep-nested/no-flattened-names-appear")
	}
	verifReach("C11/grep-nested/end")
}
