//go:build verif

package transformers

// C13 — join pairs exactly the matching records and accounts for every record once.
//
// The real TransformerJoin (NewTransformerJoin, Transform, transformHalfStreaming, ingestLeftFile,
// formAndEmitPairs, the unpaired emitters; for -s the real JoinBucketKeeper state machine) is run
// on a left file of NL records and a right stream of NR records (3 left records, 2 right records).
// The only stub is input.Create: the left-file reader is a goroutine that posts the harness's left
// records one per batch followed by the end-of-stream marker on the real reader channel (the
// contract ingestLeftFile/readRecord assert themselves with InternalCodingErrorIf(len != 1)).
// Per record the join field is missing, present-but-empty or present with a symbolic one-byte
// value (all 256 values, inferred from data like a reader's), every record also carries a concrete
// identity field ("lid"/"rid") and a colliding payload field "v".  Options: --np, --ul, --ur,
// --ignore-empty are symbolic booleans (assumed not all-off, as the CLI parser insists); the naming
// scheme is chosen among {-j k}, {-l lk -r rk -j ok --lp L_ --rp R_} and {-j k --lk lid}.
// The oracle is the nested-loop join written from the statement.

import (
	"github.com/johnkerl/miller/v6/pkg/cli"
	"github.com/johnkerl/miller/v6/pkg/input"
	"github.com/johnkerl/miller/v6/pkg/mlrval"
	"github.com/johnkerl/miller/v6/pkg/types"
)

type c13Rec struct {
	hasKey bool
	key    string // text of the join field when present
}

type c13KV struct {
	k, v string
}

var c13LeftRecs []*mlrval.Mlrmap

type c13Reader struct{}

func (r *c13Reader) Read(filenames []string, ctx types.Context, readerChannel chan<- []*types.RecordAndContext,
	errorChannel chan error, downstreamDoneChannel <-chan bool) {
	for _, rec := range c13LeftRecs {
		readerChannel <- []*types.RecordAndContext{types.NewRecordAndContext(rec, &ctx)}
	}
	readerChannel <- []*types.RecordAndContext{types.NewEndOfStreamMarker(&ctx)}
}

func c13InputCreate(o *cli.TReaderOptions, n int64) (input.IRecordReader, error) {
	return &c13Reader{}, nil
}

func c13N() int { return 3 } // left records (right: 2)

// symbolic description of one side
func c13Side(name string, n int) []c13Rec {
	out := make([]c13Rec, n)
	for i := 0; i < n; i++ {
		switch verifChoice(name+"_key_state", 3) {
		case 0: // join field missing
		case 1:
			out[i] = c13Rec{true, ""}
		case 2:
			out[i] = c13Rec{true, verifString(name+"_key", 1)}
		}
	}
	return out
}

func c13Build(side []c13Rec, keyName, idName, idPrefix string) []*mlrval.Mlrmap {
	var out []*mlrval.Mlrmap
	for i, r := range side {
		rec := mlrval.NewMlrmapAsRecord()
		rec.PutReference(idName, mlrval.FromString(idPrefix+string(rune('0'+i))))
		if r.hasKey {
			rec.PutReference(keyName, mlrval.FromDeferredType(r.key))
		}
		rec.PutReference("v", mlrval.FromString(idPrefix+"v"))
		out = append(out, rec)
	}
	return out
}

// ordered "put" on a key/value list (names unique, an existing name keeps its position)
func c13Put(l []c13KV, k, v string) []c13KV {
	for i := range l {
		if l[i].k == k {
			l[i].v = v
			return l
		}
	}
	return append(l, c13KV{k, v})
}

func c13Same(rec *mlrval.Mlrmap, want []c13KV) bool {
	pe := rec.Head
	for _, kv := range want {
		if pe == nil || pe.Key != kv.k || pe.Value.String() != kv.v {
			return false
		}
		pe = pe.Next
	}
	return pe == nil
}

type c13Scheme struct {
	lk, rk, ok   string // left / right / output join field names
	lp, rp       string
	keepOnlyLid  bool // --lk lid
}

func c13Schemes() []c13Scheme {
	return []c13Scheme{
		{"k", "k", "k", "", "", false},
		{"lk", "rk", "ok", "L_", "R_", false},
		{"k", "k", "k", "", "", true},
		{"lk", "k", "k", "", "", false}, // -j k -l lk, -r omitted: the right name defaults to the -j name
	}
}

// the join verb built by its REAL command-line parser from the argv the options spell
func c13Join(s c13Scheme, np, ul, ur, ie, sorted bool) *TransformerJoin {
	argv := []string{"join", "-f", "left-file"}
	if s.lk == s.rk && s.rk == s.ok {
		argv = append(argv, "-j", s.ok)
	} else if s.rk == s.ok && s.lk != s.ok {
		argv = append(argv, "-j", s.ok, "-l", s.lk)
	} else {
		argv = append(argv, "-l", s.lk, "-r", s.rk, "-j", s.ok)
	}
	if s.lp != "" {
		argv = append(argv, "--lp", s.lp)
	}
	if s.rp != "" {
		argv = append(argv, "--rp", s.rp)
	}
	if s.keepOnlyLid {
		argv = append(argv, "--lk", "lid")
	}
	if np {
		argv = append(argv, "--np")
	}
	if ul {
		argv = append(argv, "--ul")
	}
	if ur {
		argv = append(argv, "--ur")
	}
	if ie {
		argv = append(argv, "--ignore-empty")
	}
	if sorted {
		argv = append(argv, "-s")
	} else if verifChoice("spell_u", 2) == 1 {
		argv = append(argv, "-u")
	}
	tr := verifVerb(argv...)
	j, ok := tr.(*TransformerJoin)
	verifAssert(ok && j != nil, "C13/constructed-from-its-command-line")
	return j
}

// what the statement says about the three kinds of output record
func c13WantPair(s c13Scheme, l, r c13Rec, i, j int) []c13KV {
	var w []c13KV
	w = c13Put(w, s.ok, l.key)
	w = c13Put(w, s.lp+"lid", "L"+string(rune('0'+i)))
	if !s.keepOnlyLid {
		w = c13Put(w, s.lp+"v", "Lv")
	}
	w = c13Put(w, s.rp+"rid", "R"+string(rune('0'+j)))
	w = c13Put(w, s.rp+"v", "Rv")
	return w
}

func c13WantUnpaired(s c13Scheme, r c13Rec, left bool, i int) []c13KV {
	var w []c13KV
	p, id, idv, pv := s.rp, "rid", "R", "Rv"
	if left {
		p, id, idv, pv = s.lp, "lid", "L", "Lv"
	}
	w = c13Put(w, p+id, idv+string(rune('0'+i)))
	if r.hasKey {
		w = c13Put(w, s.ok, r.key)
	}
	if !(left && s.keepOnlyLid) {
		w = c13Put(w, p+"v", pv)
	}
	return w
}

func c13Run(tr *TransformerJoin, rights []*mlrval.Mlrmap) []*types.RecordAndContext {
	ctx := types.NewContext()
	idchan := make(chan bool, 1)
	odchan := make(chan bool, 8)
	out := []*types.RecordAndContext{}
	for _, rec := range rights {
		err := tr.Transform(types.NewRecordAndContext(rec, ctx), &out, idchan, odchan)
		verifAssert(err == nil, "C13/transform-no-error")
	}
	err := tr.Transform(types.NewEndOfStreamMarker(ctx), &out, idchan, odchan)
	verifAssert(err == nil, "C13/transform-no-error")
	verifAssert(len(out) >= 1 && out[len(out)-1].EndOfStream, "C13/end-of-stream-marker-last")
	for _, o := range out[:len(out)-1] {
		verifAssert(!o.EndOfStream && o.Record != nil, "C13/only-records-before-the-marker")
	}
	return out[:len(out)-1]
}

func c13KeyOK(r c13Rec, ie bool) bool {
	return r.hasKey && !(ie && r.key == "")
}

func c13Options() (np, ul, ur, ie bool) {
	np = verifChoice("np", 2) == 1
	ul = verifChoice("ul", 2) == 1
	ur = verifChoice("ur", 2) == 1
	ie = verifChoice("ignore_empty", 2) == 1
	verifAssume(!np || ul || ur) // the CLI parser refuses "no output possible"
	return
}

// Default (unsorted, half-streaming) mode against the nested-loop join of the statement.
//verif:opts engine-only maxpaths=60000 maxpaths_thorough=900000
func VerifC13_unsorted_vs_nested_loop() {
	verifReplace("github.com/johnkerl/miller/v6/pkg/input.Create", c13InputCreate)
	n := 2 + verifTier() // left records: 2 quick / 3 thorough (the sorted-mode harness has 3 in both tiers)
	s := c13Schemes()[verifChoice("scheme", 4)]
	np, ul, ur, ie := c13Options()
	L := c13Side("left", n)
	R := c13Side("right", 2) // (3 x 3 in the thorough tier exhausted the path budget: 3 left x 2 right)
	c13LeftRecs = c13Build(L, s.lk, "lid", "L")
	rights := c13Build(R, s.rk, "rid", "R")

	tr := c13Join(s, np, ul, ur, ie, false)
	out := c13Run(tr, rights)

	// the right-driven part: right-stream order, left-file order within a key
	pos := 0
	leftPaired := make([]bool, n)
	for j := 0; j < len(R); j++ {
		matched := false
		if c13KeyOK(R[j], ie) {
			for i := 0; i < n; i++ {
				if c13KeyOK(L[i], ie) && L[i].key == R[j].key {
					matched = true
					leftPaired[i] = true
					if !np {
						verifAssert(pos < len(out), "C13/pair-emitted")
						if pos < len(out) {
							verifAssert(c13Same(out[pos].Record, c13WantPair(s, L[i], R[j], i, j)), "C13/pair-composition-and-order")
						}
						pos++
					}
				}
			}
		}
		if !matched && ur {
			verifAssert(pos < len(out), "C13/right-unpaired-emitted")
			if pos < len(out) {
				verifAssert(c13Same(out[pos].Record, c13WantUnpaired(s, R[j], false, j)), "C13/right-unpaired-unchanged-but-renamed")
			}
			pos++
		}
	}
	// the left-unpaired part: every unpaired or key-less left record exactly once (any order)
	seen := make([]bool, n)
	nleft := 0
	for i := 0; i < n; i++ {
		if ul && !leftPaired[i] {
			nleft++
		}
	}
	verifAssert(len(out) == pos+nleft, "C13/every-record-accounted-for-exactly-once")
	for _, o := range out[min(pos, len(out)):] {
		id := o.Record.Get(s.lp + "lid")
		verifAssert(id != nil, "C13/tail-is-left-unpaired")
		if id == nil {
			continue
		}
		i := int(id.String()[1] - '0')
		verifAssert(i >= 0 && i < n && !seen[i] && !leftPaired[i] && ul, "C13/left-unpaired-once-and-only-unpaired")
		if i >= 0 && i < n {
			seen[i] = true
			if !s.keepOnlyLid { // with --lk the statement does not say whether unpaired left records are cut down too
				verifAssert(c13Same(o.Record, c13WantUnpaired(s, L[i], true, i)), "C13/left-unpaired-unchanged-but-renamed")
			}
		}
	}
	verifReach("C13/unsorted/end")
}

func c13Identity(o *types.RecordAndContext, s c13Scheme) (int, int) {
	i, j := -1, -1
	if id := o.Record.Get(s.lp + "lid"); id != nil {
		i = int(id.String()[1] - '0')
	}
	if id := o.Record.Get(s.rp + "rid"); id != nil {
		j = int(id.String()[1] - '0')
	}
	return i, j
}

// Sorted-input mode (-s, the real JoinBucketKeeper state machine) against the default mode on
// inputs sorted by the join key: same multiset of records.  Records lacking the key may sit
// anywhere; the keyed records of each side are in non-decreasing lexical order.
//verif:opts engine-only maxpaths=60000 maxpaths_thorough=900000
func VerifC13_sorted_equals_unsorted_on_sorted_input() {
	verifReplace("github.com/johnkerl/miller/v6/pkg/input.Create", c13InputCreate)
	n := c13N()
	s := c13Schemes()[verifChoice("scheme", 2)]
	np, ul, ur, ie := c13Options()
	L := c13Side("left", n)
	R := c13Side("right", 2)
	for _, side := range [][]c13Rec{L, R} {
		prev := -1
		for i := range side {
			if c13KeyOK(side[i], ie) {
				if prev >= 0 {
					verifAssume(side[prev].key <= side[i].key)
				}
				prev = i
			}
		}
	}

	c13LeftRecs = c13Build(L, s.lk, "lid", "L")
	tr1 := c13Join(s, np, ul, ur, ie, false)
	out1 := c13Run(tr1, c13Build(R, s.rk, "rid", "R"))

	c13LeftRecs = c13Build(L, s.lk, "lid", "L")
	tr2 := c13Join(s, np, ul, ur, ie, true)
	out2 := c13Run(tr2, c13Build(R, s.rk, "rid", "R"))

	verifAssert(len(out1) == len(out2), "C13/sorted-mode-same-number-of-records")
	used := make([]bool, len(out2))
	for _, a := range out1 {
		ai, aj := c13Identity(a, s)
		found := false
		for k, b := range out2 {
			if used[k] {
				continue
			}
			bi, bj := c13Identity(b, s)
			if ai == bi && aj == bj {
				used[k] = true
				found = true
				var want []c13KV
				for pe := a.Record.Head; pe != nil; pe = pe.Next {
					want = append(want, c13KV{pe.Key, pe.Value.String()})
				}
				verifAssert(c13Same(b.Record, want), "C13/sorted-mode-same-record-contents")
				break
			}
		}
		verifAssert(found, "C13/sorted-mode-same-multiset")
	}
	verifReach("C13/sorted/end")
}

// Two join fields (-j a,b): the pairing key is the PAIR of values, a record lacking either field —
// or, under --ignore-empty, holding an empty value in either — is unpaired, and distinct pairs never
// collide whatever bytes (separators included) the values hold.  2 left x 2 right records; per
// record a is empty or one symbolic byte, b is missing, empty or one symbolic byte; every option
// combination; default and sorted (-s) mode (the latter on inputs assumed sorted).
type c13Rec2 struct {
	a      string
	hasB   bool
	b      string
}

func c13Side2(name string, n int) []c13Rec2 {
	out := make([]c13Rec2, n)
	for i := 0; i < n; i++ {
		if verifChoice(name+"_a_state", 2) == 1 {
			out[i].a = verifString(name+"_a", 1)
		}
		switch verifChoice(name+"_b_state", 3) {
		case 1:
			out[i].hasB = true
		case 2:
			out[i].hasB, out[i].b = true, verifString(name+"_b", 1)
		}
	}
	return out
}

func c13Build2(side []c13Rec2, idName, idPrefix string) []*mlrval.Mlrmap {
	var out []*mlrval.Mlrmap
	for i, r := range side {
		rec := mlrval.NewMlrmapAsRecord()
		rec.PutReference(idName, mlrval.FromString(idPrefix+string(rune('0'+i))))
		rec.PutReference("a", mlrval.FromString(r.a))
		if r.hasB {
			rec.PutReference("b", mlrval.FromString(r.b))
		}
		out = append(out, rec)
	}
	return out
}

func c13KeyOK2(r c13Rec2, ie bool) bool {
	return r.hasB && !(ie && (r.a == "" || r.b == ""))
}

//verif:opts engine-only maxpaths=200000 maxpaths_thorough=900000
func VerifC13_two_join_fields() {
	verifReplace("github.com/johnkerl/miller/v6/pkg/input.Create", c13InputCreate)
	np, ul, ur, ie := c13Options()
	sorted := verifChoice("sorted_mode", 2) == 1
	L := c13Side2("left", 2)
	R := c13Side2("right", 2)
	if sorted {
		// -s expects both inputs sorted by the join fields: lexically by a, then by b
		for _, side := range [][]c13Rec2{L, R} {
			prev := -1
			for i := range side {
				if c13KeyOK2(side[i], ie) {
					if prev >= 0 {
						p, q := side[prev], side[i]
						verifAssume(p.a < q.a || (p.a == q.a && p.b <= q.b))
					}
					prev = i
				}
			}
		}
	}
	c13LeftRecs = c13Build2(L, "lid", "L")
	argv := []string{"join", "-f", "left-file", "-j", "a,b"}
	for _, f := range []struct {
		on   bool
		flag string
	}{{np, "--np"}, {ul, "--ul"}, {ur, "--ur"}, {ie, "--ignore-empty"}, {sorted, "-s"}} {
		if f.on {
			argv = append(argv, f.flag)
		}
	}
	tr, ok := verifVerb(argv...).(*TransformerJoin)
	verifAssert(ok && tr != nil, "C13/constructed-from-its-command-line")
	out := c13Run(tr, c13Build2(R, "rid", "R"))

	s := c13Scheme{}
	var pairs [2][2]int
	var lonly, ronly [2]int
	for _, o := range out {
		i, j := c13Identity(o, s)
		switch {
		case i >= 0 && i < 2 && j >= 0 && j < 2:
			pairs[i][j]++
			verifAssert(o.Record.Get("a").String() == L[i].a && o.Record.Get("b") != nil && o.Record.Get("b").String() == L[i].b, "C13/two-fields/paired-record-carries-the-join-values")
		case i >= 0 && i < 2 && j < 0:
			lonly[i]++
		case j >= 0 && j < 2 && i < 0:
			ronly[j]++
		default:
			verifAssert(false, "C13/two-fields/every-output-comes-from-an-input")
		}
	}
	for i := 0; i < 2; i++ {
		paired := false
		for j := 0; j < 2; j++ {
			match := c13KeyOK2(L[i], ie) && c13KeyOK2(R[j], ie) && L[i].a == R[j].a && L[i].b == R[j].b
			paired = paired || match
			want := 0
			if match && !np {
				want = 1
			}
			verifAssert(pairs[i][j] == want, "C13/two-fields/paired-exactly-when-both-values-agree")
		}
		want := 0
		if !paired && ul {
			want = 1
		}
		verifAssert(lonly[i] == want, "C13/two-fields/left-unpaired-exactly-once")
	}
	for j := 0; j < 2; j++ {
		paired := false
		for i := 0; i < 2; i++ {
			paired = paired || (c13KeyOK2(L[i], ie) && c13KeyOK2(R[j], ie) && L[i].a == R[j].a && L[i].b == R[j].b)
		}
		want := 0
		if !paired && ur {
			want = 1
		}
		verifAssert(ronly[j] == want, "C13/two-fields/right-unpaired-exactly-once")
	}
	verifReach("C13/two-fields/end")
}
