//go:build verif

package transformers

// C11 — record-selecting verbs only select: nothing altered or invented, counts add up.
// Bounded streams of N records (N = 3 quick / 4 thorough) are fed one by one through the real
// Transform of each verb, followed by the end-of-stream marker; counts k are fully symbolic int64;
// the group-by field is present or not per record (symbolic) with a symbolic one-byte value.
// Oracles are plain list slicing / partitioning written from the statement.

import (
	"github.com/johnkerl/miller/v6/pkg/mlrval"
	"github.com/johnkerl/miller/v6/pkg/types"
)

type c11Stream struct {
	n      int
	recs   []*types.RecordAndContext
	hasG   []bool
	gval   []string
	keys0  [][]string         // field names before
	vals0  [][]*mlrval.Mlrval // field value pointers before
	ctx    types.Context
	eos    *types.RecordAndContext
	idchan chan bool
	odchan chan bool
}

func c11N() int {
	if verifTier() > 0 {
		return 4
	}
	return 3
}

// stream of n records {id: <i>, [g: <1 symbolic byte>], x: "v"}
func c11MakeStream(n int, withGroups bool) *c11Stream {
	s := &c11Stream{n: n}
	s.ctx = *types.NewContext()
	for i := 0; i < n; i++ {
		rec := mlrval.NewMlrmapAsRecord()
		rec.PutReference("id", mlrval.FromInt(int64(i)))
		has := false
		gv := ""
		if withGroups {
			// the group-by field: missing, present but empty, or present with a symbolic one-byte value
			switch verifChoice("has_g", 3) {
			case 1:
				has = true
				gv = verifString("g", 1)
				rec.PutReference("g", mlrval.FromString(gv))
			case 2:
				has = true
				rec.PutReference("g", mlrval.FromString(""))
			}
		}
		rec.PutReference("x", mlrval.FromString("v"))
		s.hasG = append(s.hasG, has)
		s.gval = append(s.gval, gv)
		var ks []string
		var vs []*mlrval.Mlrval
		for pe := rec.Head; pe != nil; pe = pe.Next {
			ks = append(ks, pe.Key)
			vs = append(vs, pe.Value)
		}
		s.keys0 = append(s.keys0, ks)
		s.vals0 = append(s.vals0, vs)
		s.recs = append(s.recs, types.NewRecordAndContext(rec, &s.ctx))
	}
	s.eos = types.NewEndOfStreamMarker(&s.ctx)
	s.idchan = make(chan bool, 1)
	s.odchan = make(chan bool, 8)
	return s
}

func (s *c11Stream) run(tr RecordTransformer) []*types.RecordAndContext {
	out := []*types.RecordAndContext{}
	for i := 0; i < s.n; i++ {
		err := tr.Transform(s.recs[i], &out, s.idchan, s.odchan)
		verifAssert(err == nil, "C11/transform-no-error")
	}
	err := tr.Transform(s.eos, &out, s.idchan, s.odchan)
	verifAssert(err == nil, "C11/transform-no-error-at-eos")
	return out
}

// the output is exactly the records with the given indices, in that order, unmodified, then EOS
func (s *c11Stream) expect(out []*types.RecordAndContext, want []int, tag string) {
	verifAssert(len(out) == len(want)+1, "C11/"+tag+"/count")
	if len(out) != len(want)+1 {
		return
	}
	for i, w := range want {
		verifAssert(out[i] == s.recs[w], "C11/"+tag+"/is-the-expected-input-record")
	}
	last := out[len(out)-1]
	verifAssert(last.EndOfStream && last.Record == nil, "C11/"+tag+"/eos-last")
	s.unmodified(tag)
}

func (s *c11Stream) unmodified(tag string) {
	for i := 0; i < s.n; i++ {
		rec := s.recs[i].Record
		k := 0
		same := int(rec.FieldCount) == len(s.keys0[i])
		for pe := rec.Head; pe != nil && k < len(s.keys0[i]); pe = pe.Next {
			if pe.Key != s.keys0[i][k] || pe.Value != s.vals0[i][k] {
				same = false
			}
			k++
		}
		verifAssert(same && k == len(s.keys0[i]), "C11/"+tag+"/records-unmodified")
	}
}

// group id per record: first-appearance order of distinct g values among records having g
func (s *c11Stream) groups() (gid []int, ngroups int) {
	var reps []string
	gid = make([]int, s.n)
	for i := 0; i < s.n; i++ {
		gid[i] = -1
		if !s.hasG[i] {
			continue
		}
		for j, r := range reps {
			if r == s.gval[i] {
				gid[i] = j
			}
		}
		if gid[i] < 0 {
			reps = append(reps, s.gval[i])
			gid[i] = len(reps) - 1
		}
	}
	return gid, len(reps)
}

// head -n k: the first k; head -n -k: all but the last k.
func VerifC11_head_unkeyed() {
	n := c11N()
	s := c11MakeStream(n, false)
	k := verifInt64("k")
	tr, _ := NewTransformerHead(k, nil)
	out := s.run(tr)
	var want []int
	if k >= 0 {
		for i := 0; i < n; i++ {
			if int64(i) < k {
				want = append(want, i)
			}
		}
	} else {
		// all but the last |k|
		for i := 0; i < n; i++ {
			if int64(n-i) > -k || k == -9223372036854775808 {
				// (for k = MinInt64 "all but the last 2^63" of n < 2^63 records is nothing — handled below)
				want = append(want, i)
			}
		}
		if k == -9223372036854775808 {
			want = nil
		}
	}
	s.expect(out, want, "head")
	verifReach("C11/head/end")
}

// head -n k -g g, k >= 0: first k of each group, in stream order; records lacking g are dropped
func VerifC11_head_keyed() {
	n := c11N()
	s := c11MakeStream(n, true)
	k := verifInt64("k")
	verifAssume(k >= 0)
	tr, _ := NewTransformerHead(k, []string{"g"})
	out := s.run(tr)
	gid, ng := s.groups()
	seen := make([]int64, ng)
	var want []int
	for i := 0; i < n; i++ {
		if gid[i] < 0 {
			continue
		}
		seen[gid[i]]++
		if seen[gid[i]] <= k {
			want = append(want, i)
		}
	}
	s.expect(out, want, "head-g")
	verifReach("C11/head-g/end")
}

// tail -n k: the last k (in input order); tail -n +k: from the k-th on; |head k| + |tail +(k+1)| = N
func VerifC11_tail_unkeyed() {
	n := c11N()
	s := c11MakeStream(n, false)
	k := verifInt64("k")
	fromStart := verifChoice("plus", 2) == 1
	tr, _ := NewTransformerTail(k, fromStart, nil)
	out := s.run(tr)
	var want []int
	if fromStart {
		for i := 0; i < n; i++ {
			if int64(i+1) >= k {
				want = append(want, i)
			}
		}
	} else {
		kk := k
		if kk < 0 && kk != -9223372036854775808 {
			kk = -kk
		}
		for i := 0; i < n; i++ {
			if kk >= 0 && int64(n-i) <= kk {
				want = append(want, i)
			}
		}
		if k == -9223372036854775808 {
			// unspecified magnitude: only require a sub-sequence (checked by count bound below)
			verifAssert(len(out) <= n+1, "C11/tail/minint-sub-sequence")
			verifReach("C11/tail/end")
			return
		}
	}
	s.expect(out, want, "tail")
	verifReach("C11/tail/end")
}

// head k and tail +(k+1) partition the input
func VerifC11_head_tail_partition() {
	n := c11N()
	k := verifInt64("k")
	verifAssume(k >= 0 && k < 9223372036854775807)
	s1 := c11MakeStream(n, false)
	h, _ := NewTransformerHead(k, nil)
	o1 := s1.run(h)
	s2 := c11MakeStream(n, false)
	t, _ := NewTransformerTail(k+1, true, nil)
	o2 := s2.run(t)
	verifAssert((len(o1)-1)+(len(o2)-1) == n, "C11/head-tail/sizes-add-up")
	verifReach("C11/head-tail/end")
}

// tail -n k -g g: last k of each group, groups in first-appearance order
func VerifC11_tail_keyed() {
	n := c11N()
	s := c11MakeStream(n, true)
	k := verifInt64("k")
	verifAssume(k >= 0)
	tr, _ := NewTransformerTail(k, false, []string{"g"})
	out := s.run(tr)
	gid, ng := s.groups()
	size := make([]int64, ng)
	for i := 0; i < n; i++ {
		if gid[i] >= 0 {
			size[gid[i]]++
		}
	}
	var want []int
	for g := 0; g < ng; g++ {
		pos := int64(0)
		for i := 0; i < n; i++ {
			if gid[i] != g {
				continue
			}
			pos++
			if size[g]-pos < k {
				want = append(want, i)
			}
		}
	}
	s.expect(out, want, "tail-g")
	verifReach("C11/tail-g/end")
}

// decimate -n k [-b|-e]: every k-th record (the last of each block of k, or the first with -b)
func VerifC11_decimate() {
	n := c11N()
	s := c11MakeStream(n, false)
	k := verifInt64("k")
	verifAssume(k >= 1) // the CLI parser is expected to reject k < 1 (see VerifC11_decimate_cli)
	atStart := verifChoice("b", 2) == 1
	atEnd := verifChoice("e", 2) == 1
	tr, _ := NewTransformerDecimate(k, atStart, atEnd, nil)
	out := s.run(tr)
	var want []int
	for i := 0; i < n; i++ {
		pos := int64(i) % k // position within its block of k
		if atStart && !atEnd {
			if pos == 0 {
				want = append(want, i)
			}
		} else if pos == k-1 {
			want = append(want, i)
		}
	}
	s.expect(out, want, "decimate")
	verifReach("C11/decimate/end")
}

func VerifC11_tac() {
	n := c11N()
	s := c11MakeStream(n, false)
	tr, _ := NewTransformerTac()
	out := s.run(tr)
	var want []int
	for i := n - 1; i >= 0; i-- {
		want = append(want, i)
	}
	s.expect(out, want, "tac")
	// tac twice is the identity
	tr2, _ := NewTransformerTac()
	out2 := []*types.RecordAndContext{}
	for i := 0; i < len(out)-1; i++ {
		tr2.Transform(out[i], &out2, s.idchan, s.odchan)
	}
	tr2.Transform(out[len(out)-1], &out2, s.idchan, s.odchan)
	var ident []int
	for i := 0; i < n; i++ {
		ident = append(ident, i)
	}
	s.expect(out2, ident, "tac-tac")
	verifReach("C11/tac/end")
}

// group-by: a permutation of the records having the field; within-group order and first-appearance group order
func VerifC11_group_by() {
	n := c11N()
	s := c11MakeStream(n, true)
	tr, _ := NewTransformerGroupBy([]string{"g"})
	out := s.run(tr)
	gid, ng := s.groups()
	var want []int
	for g := 0; g < ng; g++ {
		for i := 0; i < n; i++ {
			if gid[i] == g {
				want = append(want, i)
			}
		}
	}
	s.expect(out, want, "group-by")
	// group sizes sum to the number of records having the field
	having := 0
	for i := 0; i < n; i++ {
		if s.hasG[i] {
			having++
		}
	}
	verifAssert(len(out)-1 == having, "C11/group-by/sizes-sum")
	verifReach("C11/group-by/end")
}

// group-like: records with the same field names are adjacent, first-appearance order; a permutation of all
func VerifC11_group_like() {
	n := c11N()
	s := c11MakeStream(n, true)
	tr, _ := NewTransformerGroupLike()
	out := s.run(tr)
	// two schemas: with g / without g
	var want []int
	first := s.hasG[0]
	for i := 0; i < n; i++ {
		if s.hasG[i] == first {
			want = append(want, i)
		}
	}
	for i := 0; i < n; i++ {
		if s.hasG[i] != first {
			want = append(want, i)
		}
	}
	s.expect(out, want, "group-like")
	verifReach("C11/group-like/end")
}

func VerifC11_nothing() {
	n := c11N()
	s := c11MakeStream(n, false)
	tr, _ := NewTransformerNothing()
	out := s.run(tr)
	s.expect(out, nil, "nothing")
	verifReach("C11/nothing/end")
}

// cat: all records in order; cat -n -g numbers each group 1..n (the only added field is the counter, first)
func VerifC11_cat() {
	n := c11N()
	s := c11MakeStream(n, true)
	mode := verifChoice("mode", 3)
	var tr RecordTransformer
	switch mode {
	case 0:
		tr, _ = NewTransformerCat(false, "", nil, false, false)
	case 1:
		tr, _ = NewTransformerCat(true, "n", nil, false, false)
	case 2:
		tr, _ = NewTransformerCat(true, "n", []string{"g"}, false, false)
	}
	out := s.run(tr)
	verifAssert(len(out) == n+1, "C11/cat/count")
	if len(out) != n+1 {
		return
	}
	gid, ng := s.groups()
	seen := make([]int64, ng)
	unkeyed := int64(0)
	for i := 0; i < n; i++ {
		verifAssert(out[i] == s.recs[i], "C11/cat/same-records-in-order")
		rec := s.recs[i].Record
		if mode == 0 {
			continue
		}
		var wantCounter int64
		if mode == 1 {
			wantCounter = int64(i + 1)
		} else if gid[i] >= 0 {
			seen[gid[i]]++
			wantCounter = seen[gid[i]]
		} else {
			unkeyed++
			wantCounter = unkeyed
		}
		verifAssert(rec.Head != nil && rec.Head.Key == "n", "C11/cat/counter-first")
		if rec.Head != nil && rec.Head.Key == "n" {
			c, ok := rec.Head.Value.GetIntValue()
			verifAssert(ok && c == wantCounter, "C11/cat/counter-numbers-each-group-from-1")
			// the rest of the record is as before
			k := 0
			same := int(rec.FieldCount) == len(s.keys0[i])+1
			for pe := rec.Head.Next; pe != nil && k < len(s.keys0[i]); pe = pe.Next {
				if pe.Key != s.keys0[i][k] || pe.Value != s.vals0[i][k] {
					same = false
				}
				k++
			}
			verifAssert(same, "C11/cat/other-fields-unchanged")
		}
	}
	verifReach("C11/cat/end")
}

// skip-trivial-records: drops records with no fields or only empty values
func VerifC11_skip_trivial() {
	ctx := types.NewContext()
	n := 3
	var recs []*types.RecordAndContext
	var trivial []bool
	for i := 0; i < n; i++ {
		rec := mlrval.NewMlrmapAsRecord()
		nf := verifChoice("nfields", 3)
		triv := true
		for f := 0; f < nf; f++ {
			v := verifString("v", verifChoice("vlen", 2))
			if v != "" {
				triv = false
			}
			rec.PutReference([]string{"a", "b"}[f], mlrval.FromDeferredType(v))
		}
		trivial = append(trivial, triv)
		recs = append(recs, types.NewRecordAndContext(rec, ctx))
	}
	tr, _ := NewTransformerSkipTrivialRecords()
	out := []*types.RecordAndContext{}
	idc, odc := make(chan bool, 1), make(chan bool, 8)
	for i := 0; i < n; i++ {
		tr.Transform(recs[i], &out, idc, odc)
	}
	tr.Transform(types.NewEndOfStreamMarker(ctx), &out, idc, odc)
	k := 0
	for i := 0; i < n; i++ {
		if !trivial[i] {
			verifAssert(k < len(out) && out[k] == recs[i], "C11/skip-trivial/keeps-nontrivial-in-order")
			k++
		}
	}
	verifAssert(len(out) == k+1, "C11/skip-trivial/drops-exactly-the-trivial")
	verifReach("C11/skip-trivial/end")
}
