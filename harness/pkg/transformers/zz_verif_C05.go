//go:build verif

package transformers

// C05 (chain half) — `mlr A then B` equals piping `mlr A` into `mlr B`.
//
// The real ChainTransformer (one goroutine per verb, the real intermediate record and
// downstream-done channels, runSingleTransformer/runSingleTransformerBatch) runs the chain [A, B]
// over a stream of N records cut into batches at symbolic places, followed by the end-of-stream
// marker in a batch of its own (as the readers send it).  The "pipe" side runs the real chain [A]
// over the whole stream, copies what it wrote (the lossless intermediate format: same field names,
// order and value texts), and runs a fresh chain [B] over that.  A and B range over a palette of
// real verbs that keep state across the chain boundary (counters, windows, group tables, early
// exit); group values and the head/tail counts are symbolic.  The two outputs must be the same
// records in the same order.

import (
	"github.com/johnkerl/miller/v6/pkg/cli"
	"github.com/johnkerl/miller/v6/pkg/mlrval"
	"github.com/johnkerl/miller/v6/pkg/types"
)

const c05NVerbs = 14

func c05Verb(which int, k int64) RecordTransformer {
	var tr RecordTransformer
	var err error
	switch which {
	case 0:
		tr, err = NewTransformerCat(true, "n", nil, false, false)
	case 1:
		tr, err = NewTransformerCat(true, "m", []string{"g"}, false, false)
	case 2:
		tr, err = NewTransformerHead(k, nil)
	case 3:
		tr, err = NewTransformerHead(k, []string{"g"})
	case 4:
		tr, err = NewTransformerTail(k, false, nil)
	case 5:
		tr, err = NewTransformerTac()
	case 6:
		tr, err = NewTransformerGroupBy([]string{"g"})
	case 7:
		tr, err = NewTransformerDecimate(2, false, false, nil)
	case 8:
		tr, err = NewTransformerFillDown([]string{"g"}, false, true)
	case 9:
		tr, err = NewTransformerCount([]string{"g"}, false, "count")
	case 10: // verbs below are built from their real command lines
		return verifVerb("repeat", "-n", "2")
	case 11:
		return verifVerb("count-similar", "-g", "g")
	case 12:
		return verifVerb("step", "-a", "shift,counter", "-f", "id")
	default:
		return verifVerb("fill-empty", "-v", "X")
	}
	verifAssert(err == nil && tr != nil, "C05/chain/verb-constructed")
	return tr
}

type c05In struct {
	hasG []bool
	g    []string
}

func c05Inputs(n int) c05In {
	var in c05In
	for i := 0; i < n; i++ {
		has := verifBool("has_g")
		gv := ""
		if has {
			gv = verifString("g", 1)
		}
		in.hasG = append(in.hasG, has)
		in.g = append(in.g, gv)
	}
	return in
}

func c05Records(in c05In, ctx *types.Context) []*types.RecordAndContext {
	var out []*types.RecordAndContext
	for i := range in.g {
		rec := mlrval.NewMlrmapAsRecord()
		rec.PutReference("id", mlrval.FromInt(int64(i)))
		if in.hasG[i] {
			rec.PutReference("g", mlrval.FromString(in.g[i]))
		}
		out = append(out, types.NewRecordAndContext(rec, ctx))
	}
	return out
}

// runs the real chain over the records cut into batches after the positions marked in cuts
func c05RunChain(verbs []RecordTransformer, recs []*types.RecordAndContext, cuts []bool, ctx *types.Context) []*types.RecordAndContext {
	readerCh := make(chan []*types.RecordAndContext, 2)
	readerDone := make(chan bool, 1)
	writerCh := make(chan []*types.RecordAndContext, 64)
	errCh := make(chan error, 8)
	ChainTransformer(readerCh, readerDone, verbs, writerCh, errCh, &cli.TOptions{})
	var batch []*types.RecordAndContext
	for i, r := range recs {
		batch = append(batch, r)
		if i < len(cuts) && cuts[i] {
			readerCh <- batch
			batch = nil
		}
	}
	if len(batch) > 0 {
		readerCh <- batch
	}
	readerCh <- types.NewEndOfStreamMarkerList(ctx)
	var out []*types.RecordAndContext
	for {
		b := <-writerCh
		for _, rac := range b {
			if rac.EndOfStream {
				select {
				case <-errCh:
					verifAssert(false, "C05/chain/no-data-error")
				default:
				}
				return out
			}
			if rac.Record != nil {
				out = append(out, rac)
			}
		}
	}
}

func c05CopyOut(recs []*types.RecordAndContext, ctx *types.Context) []*types.RecordAndContext {
	var out []*types.RecordAndContext
	for _, r := range recs {
		rec := mlrval.NewMlrmapAsRecord()
		for pe := r.Record.Head; pe != nil; pe = pe.Next {
			rec.PutReference(pe.Key, pe.Value.Copy())
		}
		out = append(out, types.NewRecordAndContext(rec, ctx))
	}
	return out
}

func c05SameRecords(a, b []*types.RecordAndContext, label string) {
	verifAssert(len(a) == len(b), label+"-count")
	for i := 0; i < len(a) && i < len(b); i++ {
		pa, pb := a[i].Record.Head, b[i].Record.Head
		same := true
		for pa != nil && pb != nil {
			if pa.Key != pb.Key || pa.Value.String() != pb.Value.String() {
				same = false
			}
			pa, pb = pa.Next, pb.Next
		}
		verifAssert(same && pa == nil && pb == nil, label+"-records")
	}
}

func c05ChainN() int { return 3 } // (4 records exhausted the path budget: not registered)

//verif:opts engine-only maxpaths=200000
func VerifC05_then_chain_equals_pipe() {
	n := c05ChainN()
	a := verifChoice("verb_a", c05NVerbs)
	b := verifChoice("verb_b", c05NVerbs)
	ka := verifInt64("k_a")
	kb := verifInt64("k_b")
	verifAssume(ka >= 0 && ka <= int64(n)+1 && kb >= 0 && kb <= int64(n)+1)
	in := c05Inputs(n)
	cuts := make([]bool, n)
	for i := range cuts {
		cuts[i] = verifChoice("cut_after", 2) == 1
	}
	whole := make([]bool, n)
	ctx := types.NewContext()

	chained := c05RunChain([]RecordTransformer{c05Verb(a, ka), c05Verb(b, kb)}, c05Records(in, ctx), cuts, ctx)

	mid := c05RunChain([]RecordTransformer{c05Verb(a, ka)}, c05Records(in, ctx), whole, ctx)
	piped := c05RunChain([]RecordTransformer{c05Verb(b, kb)}, c05CopyOut(mid, ctx), whole, ctx)

	c05SameRecords(chained, piped, "C05/chain/then-equals-pipe")
	verifReach("C05/chain/end")
}

// the same for chains of three verbs (thorough tier)
//verif:opts engine-only maxpaths=400000 tier=thorough
func VerifC05_then_chain_of_three_equals_pipes() {
	n := 3
	// the first seven verbs of the palette (all 14^3 triples exhausted the path budget)
	a := verifChoice("verb_a", 7)
	b := verifChoice("verb_b", 7)
	c := verifChoice("verb_c", 7)
	k := verifInt64("k")
	verifAssume(k >= 0 && k <= int64(n)+1)
	in := c05Inputs(n)
	cuts := make([]bool, n)
	for i := range cuts {
		cuts[i] = verifChoice("cut_after", 2) == 1
	}
	whole := make([]bool, n)
	ctx := types.NewContext()
	chained := c05RunChain([]RecordTransformer{c05Verb(a, k), c05Verb(b, k), c05Verb(c, k)}, c05Records(in, ctx), cuts, ctx)
	m1 := c05RunChain([]RecordTransformer{c05Verb(a, k)}, c05Records(in, ctx), whole, ctx)
	m2 := c05RunChain([]RecordTransformer{c05Verb(b, k)}, c05CopyOut(m1, ctx), whole, ctx)
	piped := c05RunChain([]RecordTransformer{c05Verb(c, k)}, c05CopyOut(m2, ctx), whole, ctx)
	c05SameRecords(chained, piped, "C05/chain3/then-equals-pipe")
	verifReach("C05/chain3/end")
}

// C05 (DSL half) — NR/FNR/FILENAME/FILENUM in the DSL are those of the context the record carries
// (symbolic here), NF is the current field count even mid-expression, and end blocks see the
// final NR.  Real put verb on the pre-parsed program.
func VerifC05_dsl_context_variables() {
	tr := verifPut(verifDSL(`$nr = NR; $fnr = FNR; $f = FILENAME; $k = FILENUM; $nf1 = NF; $new = 1; $nf2 = NF; unset $nr; $nf3 = NF; end { @final = NR; emit @final }`))
	idc, odc := make(chan bool, 1), make(chan bool, 8)
	out := []*types.RecordAndContext{}
	nr := verifInt64("NR")
	fnr := verifInt64("FNR")
	fnum := verifInt64("FILENUM")
	verifAssume(nr >= 1 && nr <= 40 && fnr >= 1 && fnr <= nr && fnum >= 1 && fnum <= 9)
	nfields := 1 + verifChoice("fields", 3)
	var last types.Context
	for i := int64(0); i < 2; i++ {
		ctx := types.Context{FILENAME: "file-" + string(rune('a'+i)), FILENUM: fnum + i, NR: nr + i, FNR: fnr + i}
		last = ctx
		rec := mlrval.NewMlrmapAsRecord()
		for j := 0; j < nfields; j++ {
			rec.PutReference("c"+string(rune('0'+j)), mlrval.FromInt(int64(j)))
		}
		verifAssert(tr.Transform(types.NewRecordAndContext(rec, &ctx), &out, idc, odc) == nil, "C05/dsl/transform-ok")
	}
	// the stream may go on after the last record this verb saw (records dropped upstream, a trailing
	// empty file): the end block sees the context of the end of the stream
	final := types.Context{FILENAME: "file-z", FILENUM: last.FILENUM + 1, NR: last.NR + 3, FNR: 0}
	verifAssert(tr.Transform(types.NewEndOfStreamMarker(&final), &out, idc, odc) == nil, "C05/dsl/end-ok")
	verifAssert(len(out) == 4, "C05/dsl/two-records-one-emit-and-the-marker")
	if len(out) != 4 {
		return
	}
	for i := int64(0); i < 2; i++ {
		r := out[i].Record
		get := func(k string) int64 {
			v := r.Get(k)
			if v == nil {
				return -1
			}
			n, _ := v.GetIntValue()
			return n
		}
		verifAssert(r.Get("nr") == nil, "C05/dsl/unset-field-gone")
		verifAssert(get("fnr") == fnr+i, "C05/dsl/FNR-is-the-record's")
		verifAssert(get("k") == fnum+i, "C05/dsl/FILENUM-is-the-record's")
		verifAssert(r.Get("f") != nil && r.Get("f").String() == "file-"+string(rune('a'+i)), "C05/dsl/FILENAME-is-the-record's")
		// nf1: the input fields + nr, fnr, f, k assigned so far; nf2: + nf1 and new; nf3: + nf2, - nr
		verifAssert(get("nf1") == int64(nfields)+4, "C05/dsl/NF-counts-fields-assigned-so-far")
		verifAssert(get("nf2") == int64(nfields)+6, "C05/dsl/NF-mid-expression-after-new-fields")
		verifAssert(get("nf3") == int64(nfields)+6, "C05/dsl/NF-after-unset")
	}
	fin := out[2].Record
	verifAssert(fin != nil && fin.Get("final") != nil, "C05/dsl/end-block-emits")
	if fin != nil && fin.Get("final") != nil {
		n, ok := fin.Get("final").GetIntValue()
		verifAssert(ok && n == nr+1+3, "C05/dsl/end-block-sees-the-final-NR")
	}
	verifReach("C05/dsl/context/end")
}
