//go:build verif

package transformers

// C20 at the verb / DSL level — the split verb (built from its real command line) and redirected
// DSL output (real put verb) over a file-system stub: each target receives exactly the records or
// lines routed to it, in stream order; the union of all targets' records is the routed input; the
// target names are the documented ones.  Four records; the routing field g is one of two values
// chosen per record, x is the record number.

import (
	"os"

	"github.com/johnkerl/miller/v6/pkg/mlrval"
	"github.com/johnkerl/miller/v6/pkg/types"
)

func c20Stubs() {
	verifReplace("os.OpenFile", c04OpenFile)
	verifReplace("(*os.File).Write", c04Write)
	verifReplace("(*os.File).Close", c04Close)
	verifReplace("os.MkdirAll", func(path string, perm os.FileMode) error { return nil })
	c04Files = map[string][]byte{}
	c04Handles = map[*os.File]string{}
}

func c20Feed(tr RecordTransformer, gs []string) int {
	ctx := types.NewContext()
	idc, odc := make(chan bool, 1), make(chan bool, 64)
	out := []*types.RecordAndContext{}
	for i, g := range gs {
		rec := mlrval.NewMlrmapAsRecord()
		rec.PutReference("g", mlrval.FromString(g))
		rec.PutReference("x", mlrval.FromInt(int64(i)))
		verifAssert(tr.Transform(types.NewRecordAndContext(rec, ctx), &out, idc, odc) == nil, "C20/verbs/transform-ok")
	}
	verifAssert(tr.Transform(types.NewEndOfStreamMarker(ctx), &out, idc, odc) == nil, "C20/verbs/end-ok")
	verifYield()
	n := 0
	for _, o := range out {
		if o.Record != nil {
			n++
		}
	}
	return n
}

func c20Line(g string, i int) string { return "g=" + g + ",x=" + string(rune('0'+i)) + "\n" }

//verif:opts engine-only maxpaths=100000
func VerifC20_split_verb() {
	c20Stubs()
	vals := []string{"a", "c d"}
	var gs []string
	for i := 0; i < 4; i++ {
		gs = append(gs, vals[verifChoice("g", 2)])
	}
	want := map[string]string{}
	var passed int
	mode := verifChoice("mode", 5)
	if mode == 4 {
		// two group-by fields whose values contain commas: ("x,y","z") and ("x","y,z") are different groups
		ctx := types.NewContext()
		idc, odc := make(chan bool, 1), make(chan bool, 64)
		out := []*types.RecordAndContext{}
		tr := verifVerb("split", "-g", "g,h")
		pairs := [][2]string{{"x,y", "z"}, {"x", "y,z"}}
		for i := 0; i < 3; i++ {
			p := pairs[verifChoice("pair", 2)]
			rec := mlrval.NewMlrmapAsRecord()
			rec.PutReference("g", mlrval.FromString(p[0]))
			rec.PutReference("h", mlrval.FromString(p[1]))
			rec.PutReference("x", mlrval.FromInt(int64(i)))
			verifAssert(tr.Transform(types.NewRecordAndContext(rec, ctx), &out, idc, odc) == nil, "C20/split/transform-ok")
			name := "split_x%2Cy_z.dkvp"
			if p[0] == "x" {
				name = "split_x_y%2Cz.dkvp"
			}
			want[name] += "g=" + p[0] + ",h=" + p[1] + ",x=" + string(rune('0'+i)) + "\n"
		}
		tr.Transform(types.NewEndOfStreamMarker(ctx), &out, idc, odc)
		verifYield()
	}
	switch mode {
	case 0: // -g: one file per distinct value, URL-escaped
		passed = c20Feed(verifVerb("split", "-g", "g"), gs)
		for i, g := range gs {
			name := "split_a.dkvp"
			if g == "c d" {
				name = "split_c+d.dkvp"
			}
			want[name] += c20Line(g, i)
		}
	case 1: // -m 2: round robin
		passed = c20Feed(verifVerb("split", "-m", "2", "--prefix", "out", "--suffix", "dat"), gs)
		for i, g := range gs {
			want["out_"+string(rune('1'+i%2))+".dat"] += c20Line(g, i)
		}
	case 2: // -n 3: capped file sizes
		passed = c20Feed(verifVerb("split", "-n", "3", "--folder", "d"), gs)
		for i, g := range gs {
			want["d/split_"+string(rune('1'+i/3))+".dkvp"] += c20Line(g, i)
		}
	case 3: // -v: records go downstream as well
		passed = c20Feed(verifVerb("split", "-v", "-e", "-j", "-", "-g", "g"), gs)
		verifAssert(passed == len(gs), "C20/split/-v-passes-every-record-on")
		for i, g := range gs {
			want["split-"+g+".dkvp"] += c20Line(g, i)
		}
		passed = 0
	}
	verifAssert(passed == 0, "C20/split/records-are-not-passed-on-without--v")
	verifAssert(len(c04Files) == len(want), "C20/split/exactly-the-documented-targets")
	for name, text := range want {
		verifAssert(string(c04Files[name]) == text, "C20/split/target-holds-exactly-its-records-in-stream-order")
	}
	verifAssert(len(c04Handles) == 0, "C20/split/every-handle-closed")
	verifReach("C20/split/end")
}

//verif:opts engine-only maxpaths=100000
func VerifC20_dsl_redirects() {
	c20Stubs()
	vals := []string{"a", "b"}
	var gs []string
	for i := 0; i < 4; i++ {
		gs = append(gs, vals[verifChoice("g", 2)])
	}
	stmts := []string{
		verifDSL(`tee > $g.".out", $*`),
		verifDSL(`print > "p_".$g, $x`),
		verifDSL(`emit > "e.out", mapdiff($*, {"g": 0})`),
		verifDSL(`print > $g.".out", $x; print > $g.".out", "line"`),
		verifDSL(`if ($g == "a") { tee > "first.out", $* } else { tee > "second.out", $* } tee > "all.out", $*`),
		verifDSL(`tee >> "old.out", $*`),
		verifDSL(`print > "old.out", $x`),
		verifDSL(`dump > "old.out", {"x": $x}`),
		verifDSL(`dump >> "old.out", {"x": $x}`),
		verifDSL(`emit >> "old.out", mapdiff($*, {"g": 0})`),
	}
	which := verifChoice("statement", len(stmts))
	if c20FixedStatement >= 0 {
		which = c20FixedStatement
	}
	c04Files["old.out"] = []byte("old\n") // a target that exists beforehand with content
	passed := c20Feed(verifPut(stmts[which]), gs)
	verifAssert(passed == len(gs), "C20/redirect/main-stream-continues")
	if which >= 5 {
		got := string(c04Files["old.out"])
		appends := which == 5 || which == 8 || which == 9
		if appends {
			verifAssert(len(got) > 4 && got[:4] == "old\n", "C20/redirect/>>-keeps-what-the-target-held")
		} else {
			verifAssert(len(got) > 0 && (len(got) < 4 || got[:4] != "old\n"), "C20/redirect/>-replaces-what-the-target-held")
		}
		switch which {
		case 5:
			w := "old\n"
			for i, g := range gs {
				w += "g=" + g + ",x=" + string(rune('0'+i)) + "\n"
			}
			verifAssert(got == w, "C20/redirect/append-target-holds-old-then-routed-records")
		case 6:
			verifAssert(got == "0\n1\n2\n3\n", "C20/redirect/overwrite-target-holds-the-routed-lines")
		case 9:
			verifAssert(got == "old\nx=0\nx=1\nx=2\nx=3\n", "C20/redirect/append-target-holds-old-then-routed-records")
		}
		verifReach("C20/redirect/end")
		return
	}
	delete(c04Files, "old.out")
	want := map[string]string{}
	for i, g := range gs {
		rec := "g=" + g + ",x=" + string(rune('0'+i)) + "\n"
		switch which {
		case 0:
			want[g+".out"] += rec
		case 1:
			want["p_"+g] += string(rune('0'+i)) + "\n"
		case 2:
			want["e.out"] += "x=" + string(rune('0'+i)) + "\n"
		case 3: // two print statements routed to one target
			want[g+".out"] += string(rune('0'+i)) + "\nline\n"
		case 4:
			if g == "a" {
				want["first.out"] += rec
			} else {
				want["second.out"] += rec
			}
			want["all.out"] += rec
		}
	}
	verifAssert(len(c04Files) == len(want), "C20/redirect/exactly-the-computed-targets")
	for name, text := range want {
		if which == 3 && c20FixedStatement < 0 && verifKnown("C20-two-statements-one-target") {
			continue // known finding: excluded region = one target named by two different statements
		}
		verifAssert(string(c04Files[name]) == text, "C20/redirect/target-holds-exactly-what-was-routed-to-it-in-order")
	}
	verifReach("C20/redirect/end")
}

var c20FixedStatement = -1

// confirms the known finding: two redirected print statements naming the same target each own a
// handler that truncates the file, so the lines of the first statement are lost
//verif:opts engine-only expect-violation=C20-two-statements-one-target
func VerifC20_known_two_statements_one_target() {
	c20FixedStatement = 3
	VerifC20_dsl_redirects()
	c20FixedStatement = -1
}

// The target of a redirected statement is evaluated for EVERY record, however it is written: a
// concatenation, a string literal interpolating regex captures ("t_\1" after =~), a local variable,
// a function call, a map element.  Four records with g in {a, b} chosen per record; every form must
// route record i to "t_<g>" — exactly those targets, each holding its records in stream order.
//verif:opts engine-only maxpaths=100000
func VerifC20_dsl_redirect_target_forms() {
	c20Stubs()
	vals := []string{"a", "b"}
	var gs []string
	for i := 0; i < 4; i++ {
		gs = append(gs, vals[verifChoice("g", 2)])
	}
	stmts := []string{
		verifDSL(`tee > "t_".$g, $*`),
		verifDSL(`if ($g =~ "^(.)$") { tee > "t_\1", $* }`),
		verifDSL(`t = "t_".$g; tee > t, $*`),
		verifDSL(`tee > sub($g, "^", "t_"), $*`),
		verifDSL(`m = {"a": "t_a", "b": "t_b"}; tee > m[$g], $*`),
		verifDSL(`if ($g =~ "^(.)$") { print > "t_\1", "g=".$g.",x=".$x }`),
		verifDSL(`if ($g =~ "^(.)$") { emit > "t_\1", mapsum($*, {}) }`),
		verifDSL(`if ($g =~ "^(.)$") { tee >> "t_\1", $* }`),
		verifDSL(`if ($g =~ "^(.)$") { print >> "t_\1", "g=".$g.",x=".$x }`),
	}
	passed := c20Feed(verifPut(stmts[verifChoice("statement", len(stmts))]), gs)
	verifAssert(passed == len(gs), "C20/target-forms/main-stream-continues")
	want := map[string]string{}
	for i, g := range gs {
		want["t_"+g] += c20Line(g, i)
	}
	verifAssert(len(c04Files) == len(want), "C20/target-forms/exactly-the-computed-targets")
	for name, text := range want {
		verifAssert(string(c04Files[name]) == text, "C20/target-forms/target-holds-exactly-what-was-routed-to-it-in-order")
	}
	verifReach("C20/target-forms/end")
}
