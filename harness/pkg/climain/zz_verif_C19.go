//go:build verif

package climain

import (
	"github.com/johnkerl/miller/v6/pkg/cli"
)

// C19 (command line) — -I needs input files and keeps them, per spelling of the command line: the
// real ParseCommandLine on a palette of argvs.  The .mlrrc loader is replaced by a no-op (no file
// system under the engine).

//verif:opts engine-only
func VerifC19_in_place_command_lines() {
	verifReplace("github.com/johnkerl/miller/v6/pkg/climain.loadMlrrcFiles", func(o *cli.TOptions, profile string) error { return nil })
	type tc struct {
		argv    []string
		wantErr bool
		files   []string
	}
	cases := []tc{
		{[]string{"mlr", "-I", "cat"}, true, nil},
		{[]string{"mlr", "-I", "cat", "f1", "f2"}, false, []string{"f1", "f2"}},
		{[]string{"mlr", "-I", "-n", "cat", "f1"}, true, nil},
		{[]string{"mlr", "-n", "-I", "cat", "f1"}, true, nil},
		{[]string{"mlr", "-I", "--from", "f1", "cat"}, false, []string{"f1"}},
		{[]string{"mlr", "--from", "f1", "--from", "f2", "-I", "head", "-n", "1", "then", "tac"}, false, []string{"f1", "f2"}},
		{[]string{"mlr", "--icsv", "--ojson", "-I", "cat", "f1"}, false, []string{"f1"}},
		{[]string{"mlr", "cat", "f1"}, false, []string{"f1"}},
	}
	c := cases[verifChoice("argv", len(cases))]
	options, trs, err := ParseCommandLine(c.argv)
	if c.wantErr {
		verifAssert(err != nil, "C19/cli/-I-without-input-files-is-refused")
	} else {
		verifAssert(err == nil && options != nil && len(trs) >= 1, "C19/cli/command-line-accepted")
		if err == nil && options != nil {
			inPlace := false
			for _, a := range c.argv {
				if a == "-I" {
					inPlace = true
				}
			}
			verifAssert(options.DoInPlace == inPlace, "C19/cli/in-place-iff--I-given")
			verifAssert(len(options.FileNames) == len(c.files), "C19/cli/every-named-file-kept")
			for i := 0; i < len(c.files) && i < len(options.FileNames); i++ {
				verifAssert(options.FileNames[i] == c.files[i], "C19/cli/files-in-command-line-order")
			}
		}
	}
	verifReach("C19/cli/end")
}
