//go:build verif

package mlrval

// C01 (JSON strings) — every string Miller writes as a JSON string is standard: an independent
// RFC-8259 string reader recovers the same bytes from it (in particular no raw control character is
// emitted).  Miller's own JSON reader is encoding/json's reflective decoder: outside reach.  All ASCII strings of
// length ≤ 2 (quick) / 3 (thorough), as keys and as values.

import (
	"bytes"
)

func c01Hex(b byte) (int, bool) {
	switch {
	case b >= '0' && b <= '9':
		return int(b - '0'), true
	case b >= 'a' && b <= 'f':
		return int(b-'a') + 10, true
	case b >= 'A' && b <= 'F':
		return int(b-'A') + 10, true
	}
	return 0, false
}

// RFC 8259 §7 string reader (ASCII code points only: enough for this domain)
func c01RefJSONString(t string) (string, bool) {
	if len(t) < 2 || t[0] != '"' || t[len(t)-1] != '"' {
		return "", false
	}
	var out []byte
	for i := 1; i < len(t)-1; i++ {
		b := t[i]
		switch {
		case b < 0x20 || b == '"':
			return "", false // control characters and quotes must be escaped
		case b == '\\':
			i++
			if i >= len(t)-1 {
				return "", false
			}
			switch t[i] {
			case '"', '\\', '/':
				out = append(out, t[i])
			case 'b':
				out = append(out, '\b')
			case 'f':
				out = append(out, '\f')
			case 'n':
				out = append(out, '\n')
			case 'r':
				out = append(out, '\r')
			case 't':
				out = append(out, '\t')
			case 'u':
				if i+4 >= len(t)-1+1 {
					return "", false
				}
				v := 0
				for k := 1; k <= 4; k++ {
					h, ok := c01Hex(t[i+k])
					if !ok {
						return "", false
					}
					v = v*16 + h
				}
				if v >= 0x80 {
					return "", false
				}
				out = append(out, byte(v))
				i += 4
			default:
				return "", false
			}
		default:
			out = append(out, b)
		}
	}
	return string(out), true
}

//verif:opts unwind=300 maxpaths=200000
func VerifC01_json_string_roundtrip() {
	n := 2 + verifTier()
	s := verifString("s", verifChoice("len", n+1))
	for i := 0; i < len(s); i++ {
		verifAssume(s[i] < 0x80)
	}
	enc := millerJSONEncodeString(s)
	verifObserveStr("enc", enc)
	dec, ok := c01RefJSONString(enc)
	verifAssert(ok, "C01/json/string-is-rfc8259")
	if ok {
		verifAssert(dec == s, "C01/json/rfc8259-reader-recovers-the-bytes")
	}
	// as the key and the value of a one-field record through the real record formatting
	rec := NewMlrmapAsRecord()
	rec.PutReference("k"+s, FromString(s))
	text, err := rec.FormatAsJSON(JSON_SINGLE_LINE, false)
	verifAssert(err == nil, "C01/json/record-formats")
	if err == nil {
		want := "{" + millerJSONEncodeString("k"+s) + ": " + enc + "}"
		verifAssert(string(bytes.TrimSpace([]byte(text))) == want, "C01/json/record-is-name-colon-value-in-braces")
	}
	verifReach("C01/json/end")
}
