//go:build verif

package mlrval

// C03 — fields a chain does not assign pass through byte-for-byte: reading a value (type
// inference, numeric accessors, comparisons, sort collation, copying, record lookups) never
// alters its text, under every inference flag.

func c03Reads(mv *Mlrval, other *Mlrval, op int) {
	switch op {
	case 0:
		mv.Type()
	case 1:
		mv.GetNumericToFloatValue()
	case 2:
		mv.GetIntValue()
		mv.GetFloatValue()
	case 3:
		mv.IsNumeric()
		mv.IsStringOrVoid()
		mv.IsVoid()
		mv.IsLegit()
	case 4:
		Cmp(mv, other)
		Equals(mv, other)
		LessThan(other, mv)
	case 5:
		NumericAscendingComparator(mv, other)
		NumericDescendingComparator(other, mv)
	case 6:
		LexicalAscendingComparator(mv, other)
		LexicalDescendingComparator(other, mv)
	case 7:
		mv.GetTypeName()
		mv.GetBoolValue()
		mv.GetStringValue()
	case 8:
		mv.OriginalString()
		mv.StringMaybeQuoted()
	}
}

const c03NOps = 9

func c03Inferrer(which int) {
	switch which {
	case 0:
		packageLevelInferrer = inferNormally
	case 1:
		SetInferrerStringOnly()
	case 2:
		SetInferrerIntAsFloat()
	case 3:
		SetInferrerOctalAsInt()
	}
}

// every byte string up to 3 (quick) / 5 (thorough) bytes; a first read operation chosen among 4
// (it is the one that triggers the just-in-time type inference), then all nine in order; each inferrer
//verif:opts unwind=200 maxpaths=600000
func VerifC03_reads_keep_text() {
	n := 4
	if verifTier() > 0 {
		n = 6
	}
	c03Inferrer(verifChoice("inferrer", 4))
	l := verifChoice("len", n)
	s := verifString("s", l)
	mv := FromDeferredType(s)
	other := FromDeferredType("12")
	// the value sits in a record, as field values do
	rec := NewMlrmapAsRecord()
	rec.PutReference("a", mv)
	rec.PutReference("b", other)
	// the first read triggers the just-in-time inference: type query, numeric read, comparison, sort collation
	first := []int{0, 1, 4, 5}
	c03Reads(mv, other, first[verifChoice("op1", len(first))])
	for op := 0; op < c03NOps; op++ {
		c03Reads(mv, other, op)
	}
	got := rec.Get("a")
	verifAssert(got == mv, "C03/same-value-object-in-record")
	verifAssert(mv.printrepValid, "C03/text-still-valid")
	verifAssert(mv.String() == s, "C03/text-unchanged")
	packageLevelInferrer = inferNormally
	verifReach("C03/reads/end")
}

// numerals with excess spelling (leading '+', leading zeros, hex, exponent, trailing zeros) keep it:
// numeric alphabet, up to 6 (quick) / 8 (thorough) bytes, after type inference and a numeric read
//verif:opts unwind=300 maxpaths=600000
func VerifC03_numeric_spelling_kept() {
	n := 6
	if verifTier() > 0 {
		n = 9
	}
	c03Inferrer(verifChoice("inferrer", 4))
	l := 1 + verifChoice("len", n-1)
	s := verifString("s", l)
	alphabet := "0123456789+-.eExXbBoOaAfF_ "
	for i := 0; i < l; i++ {
		in := false
		for j := 0; j < len(alphabet); j++ {
			if s[i] == alphabet[j] {
				in = true
			}
		}
		verifAssume(in)
	}
	mv := FromDeferredType(s)
	mv.Type()
	mv.GetNumericToFloatValue()
	cp := mv.Copy()
	verifAssert(mv.printrepValid && mv.String() == s, "C03/numeric/text-unchanged")
	verifAssert(cp.String() == s, "C03/numeric/copy-keeps-text")
	packageLevelInferrer = inferNormally
	verifReach("C03/numeric/end")
}
