//go:build verif

package mlrval

// C02 — nested maps and arrays are spread to separator-joined keys and rebuilt on the way back:
// unflatten(flatten(r)) == r for bounded nested records (depth ≤ 2, ≤ 2 entries per level, one-byte
// symbolic keys and leaves) whose keys are non-empty and free of the separator.
// Known finding C02-int-keyed-map-arrayified: a map whose keys are exactly "1".."n" comes back as
// an array (the flattened form is the same as an array's); exactly that region is excluded.

func c02Key(tag string) string {
	k := verifString(tag, 1)
	verifAssume(k[0] != '.' && k[0] != ':')
	return k
}

func c02Leaf(tag string) *Mlrval {
	switch verifChoice(tag+"_leaf", 4) {
	case 0:
		return FromInt(verifInt64(tag + "_i"))
	case 1:
		s := verifString(tag+"_s", 1)
		return FromString(s)
	case 2:
		return FromMap(NewMlrmap())
	}
	return FromArray([]*Mlrval{})
}

func c02Node(depth int, tag string) *Mlrval {
	if depth == 0 {
		return c02Leaf(tag)
	}
	switch verifChoice(tag+"_shape", 3) {
	case 0:
		return c02Leaf(tag)
	case 1: // map with 1..2 entries
		m := NewMlrmap()
		k1 := c02Key(tag + "_k1")
		m.PutReference(k1, c02Node(depth-1, tag+"a"))
		if verifChoice(tag+"_two", 2) == 1 {
			k2 := c02Key(tag + "_k2")
			verifAssume(k2 != k1)
			m.PutReference(k2, c02Node(depth-1, tag+"b"))
			if verifKnown("C02-int-keyed-map-arrayified") {
				verifAssume(!(k1 == "1" && k2 == "2"))
			}
		} else if verifKnown("C02-int-keyed-map-arrayified") {
			verifAssume(k1 != "1")
		}
		return FromMap(m)
	}
	// array with 1..2 elements
	arr := []*Mlrval{c02Node(depth-1, tag+"a")}
	if verifChoice(tag+"_two", 2) == 1 {
		arr = append(arr, c02Node(depth-1, tag+"b"))
	}
	return FromArray(arr)
}

func c02Same(a, b *Mlrval, label string) {
	verifAssert(a.Type() == b.Type(), label+"/same-type")
	if a.Type() != b.Type() {
		return
	}
	switch a.Type() {
	case MT_MAP:
		ma, mb := a.intf.(*Mlrmap), b.intf.(*Mlrmap)
		verifAssert(ma.FieldCount == mb.FieldCount, label+"/same-map-size")
		pb := mb.Head
		for pa := ma.Head; pa != nil && pb != nil; pa, pb = pa.Next, pb.Next {
			verifAssert(pa.Key == pb.Key, label+"/same-keys-in-order")
			c02Same(pa.Value, pb.Value, label)
		}
	case MT_ARRAY:
		aa, ab := a.intf.([]*Mlrval), b.intf.([]*Mlrval)
		verifAssert(len(aa) == len(ab), label+"/same-array-length")
		for i := 0; i < len(aa) && i < len(ab); i++ {
			c02Same(aa[i], ab[i], label)
		}
	case MT_INT:
		verifAssert(a.intf.(int64) == b.intf.(int64), label+"/same-int")
	default:
		verifAssert(a.printrep == b.printrep, label+"/same-text")
	}
}

// confirms the known finding on the smallest instance: {"x": {"1": 5}}
//verif:opts expect-violation=C02-int-keyed-map-arrayified
func VerifC02_known_int_keyed_map_arrayified() {
	inner := NewMlrmap()
	inner.PutReference("1", FromInt(verifInt64("leaf")))
	rec := NewMlrmapAsRecord()
	rec.PutReference("x", FromMap(inner))
	orig := rec.Copy()
	rec.Flatten(".")
	back := rec.CopyUnflattened(".")
	c02Same(FromMap(orig), FromMap(back), "C02/flatten-unflatten")
	verifReach("C02/known-int-keyed/end")
}

// depth 1 in the quick tier (both separators), depth 2 in the thorough tier
//verif:opts maxpaths=300000 unwind=200
func VerifC02_flatten_unflatten_inverse() {
	depth := 1 + verifTier()
	sep := []string{".", ":"}[verifChoice("sep", 2)]
	rec := NewMlrmapAsRecord()
	rec.PutReference("p", FromInt(1)) // a flat bystander before
	top := c02Node(depth, "n")
	rec.PutReference("x", top)
	rec.PutReference("q", FromString("z")) // and after
	orig := rec.Copy()
	rec.Flatten(sep)
	for pe := rec.Head; pe != nil; pe = pe.Next {
		verifAssert(!pe.Value.IsArrayOrMap(), "C02/flatten/output-is-flat")
	}
	back := rec.CopyUnflattened(sep)
	c02Same(FromMap(orig), FromMap(back), "C02/flatten-unflatten")
	verifReach("C02/flatten/end")
}

// the same with two-byte symbolic keys (numeric-looking names such as "01", "+1", "1x", "10"
// included) on a one-level map of one or two entries: only the exact key sequence "1".."n"
// is rebuilt as an array, and two-byte keys can form it only as {"1"... } — never — or not at all,
// so every such map must come back as the same map
//verif:opts maxpaths=100000 unwind=200
func VerifC02_flatten_unflatten_two_byte_keys() {
	sep := []string{".", ":"}[verifChoice("sep", 2)]
	k1 := verifString("k1", 2)
	k2 := verifString("k2", 2)
	for i := 0; i < 2; i++ {
		verifAssume(k1[i] != '.' && k1[i] != ':' && k2[i] != '.' && k2[i] != ':')
	}
	verifAssume(k1 != k2)
	inner := NewMlrmap()
	inner.PutReference(k1, FromInt(verifInt64("leaf1")))
	if verifChoice("two", 2) == 1 {
		inner.PutReference(k2, FromString("v"))
	}
	rec := NewMlrmapAsRecord()
	rec.PutReference("x", FromMap(inner))
	orig := rec.Copy()
	rec.Flatten(sep)
	back := rec.CopyUnflattened(sep)
	c02Same(FromMap(orig), FromMap(back), "C02/flatten-unflatten-2")
	verifReach("C02/flatten2/end")
}
