//go:build verif

package mlrval

// C12(a) — every Mlrmap mutator preserves the representation invariant and equals the
// ordered-association-list specification, hashed and unhashed.  One inductive step from an
// ARBITRARY valid state: the pre-state is built directly (not through the mutators under test)
// with n pairwise-distinct symbolic one-byte keys; because it ranges over all states satisfying
// the invariant, the step covers histories of any length up to the width bound.

type c12Model struct {
	keys []string
	vals []*Mlrval
}

func (m *c12Model) find(k string) int {
	for i := range m.keys {
		if m.keys[i] == k {
			return i
		}
	}
	return -1
}

func (m *c12Model) removeAt(i int) {
	m.keys = append(append([]string{}, m.keys[:i]...), m.keys[i+1:]...)
	m.vals = append(append([]*Mlrval{}, m.vals[:i]...), m.vals[i+1:]...)
}

func (m *c12Model) insertAt(i int, k string, v *Mlrval) {
	ks := append([]string{}, m.keys[:i]...)
	ks = append(ks, k)
	ks = append(ks, m.keys[i:]...)
	vs := append([]*Mlrval{}, m.vals[:i]...)
	vs = append(vs, v)
	vs = append(vs, m.vals[i:]...)
	m.keys, m.vals = ks, vs
}

// arbitrary valid pre-state: n entries, distinct symbolic keys, index built or not
func c12PreState(n int, hashed bool) (*Mlrmap, *c12Model, []*MlrmapEntry) {
	mm := &Mlrmap{}
	if hashed {
		mm.keysToEntries = make(map[string]*MlrmapEntry)
	}
	model := &c12Model{}
	var entries []*MlrmapEntry
	for i := 0; i < n; i++ {
		k := verifString("key", 1)
		for j := 0; j < i; j++ {
			verifAssume(k != model.keys[j])
		}
		v := FromInt(int64(100 + i))
		pe := &MlrmapEntry{Key: k, Value: v}
		if mm.Head == nil {
			mm.Head, mm.Tail = pe, pe
		} else {
			pe.Prev = mm.Tail
			mm.Tail.Next = pe
			mm.Tail = pe
		}
		mm.FieldCount++
		if hashed {
			mm.keysToEntries[k] = pe
		}
		model.keys = append(model.keys, k)
		model.vals = append(model.vals, v)
		entries = append(entries, pe)
	}
	return mm, model, entries
}

// representation invariant + agreement with the model
func c12Check(mm *Mlrmap, model *c12Model, tag string) {
	n := int64(0)
	var prev *MlrmapEntry
	ok := true
	i := 0
	for pe := mm.Head; pe != nil && n <= 8; pe = pe.Next {
		if pe.Prev != prev {
			ok = false
		}
		if i < len(model.keys) {
			verifAssert(pe.Key == model.keys[i], "C12/"+tag+"/key-sequence")
			verifAssert(pe.Value == model.vals[i], "C12/"+tag+"/value-sequence")
		}
		if mm.keysToEntries != nil {
			verifAssert(mm.keysToEntries[pe.Key] == pe, "C12/"+tag+"/index-maps-key-to-its-entry")
		}
		prev = pe
		n++
		i++
	}
	verifAssert(ok, "C12/"+tag+"/prev-links")
	verifAssert(mm.Tail == prev, "C12/"+tag+"/tail-is-last")
	verifAssert(n == mm.FieldCount, "C12/"+tag+"/field-count")
	verifAssert(int(n) == len(model.keys), "C12/"+tag+"/length")
	if mm.keysToEntries != nil {
		verifAssert(len(mm.keysToEntries) == int(n), "C12/"+tag+"/index-has-no-stale-keys")
	}
	// keys unique
	for a := 0; a < len(model.keys); a++ {
		for b := a + 1; b < len(model.keys); b++ {
			verifAssert(model.keys[a] != model.keys[b], "C12/"+tag+"/keys-unique")
		}
	}
}

func c12Width() int {
	if verifTier() > 0 {
		return 5
	}
	return 4
}

func c12Setup() (*Mlrmap, *c12Model, []*MlrmapEntry, int) {
	n := verifChoice("n", c12Width())
	hashed := verifChoice("hashed", 2) == 1
	mm, model, entries := c12PreState(n, hashed)
	return mm, model, entries, n
}

// 1-up position with negative aliases -> 0-up index or -1
func c12Pos(pos int64, n int) int {
	if pos >= 1 && pos <= int64(n) {
		return int(pos - 1)
	}
	if pos <= -1 && pos >= -int64(n) {
		return int(int64(n) + pos)
	}
	return -1
}

//verif:opts maxpaths=200000
func VerifC12_put_family() {
	mm, model, entries, n := c12Setup()
	k := verifString("k", 1)
	v := FromInt(7)
	switch verifChoice("op", 4) {
	case 0: // PutReference: overwrite in place, or append
		mm.PutReference(k, v)
		if i := model.find(k); i >= 0 {
			model.vals[i] = v
		} else {
			model.insertAt(len(model.keys), k, v)
		}
		c12Check(mm, model, "PutReference")
	case 1: // PrependReference: overwrite in place, or new head
		mm.PrependReference(k, v)
		if i := model.find(k); i >= 0 {
			model.vals[i] = v
		} else {
			model.insertAt(0, k, v)
		}
		c12Check(mm, model, "PrependReference")
	case 2: // PutReferenceAfter(entry i) with a fresh key
		verifAssume(model.find(k) < 0)
		var after *MlrmapEntry
		at := len(model.keys)
		if n > 0 {
			w := verifChoice("after", n+1)
			if w < n {
				after = entries[w]
				at = w + 1
			}
		}
		pf := mm.PutReferenceAfter(after, k, v)
		verifAssert(pf != nil && pf.Key == k && pf.Value == v, "C12/PutReferenceAfter/returns-new-entry")
		model.insertAt(at, k, v)
		c12Check(mm, model, "PutReferenceAfter")
	case 3: // PutCopy: same placement as PutReference, value copied
		mm.PutCopy(k, v)
		i := model.find(k)
		got := mm.Get(k)
		verifAssert(got != nil && got != v, "C12/PutCopy/stores-a-copy")
		if i >= 0 {
			model.vals[i] = got
		} else {
			model.insertAt(len(model.keys), k, got)
		}
		c12Check(mm, model, "PutCopy")
	}
	verifReach("C12/put/end")
}

//verif:opts maxpaths=200000
func VerifC12_remove_move() {
	mm, model, _, _ := c12Setup()
	k := verifString("k", 1)
	switch verifChoice("op", 4) {
	case 0:
		r := mm.Remove(k)
		i := model.find(k)
		verifAssert(r == (i >= 0), "C12/Remove/reports-presence")
		if i >= 0 {
			model.removeAt(i)
		}
		c12Check(mm, model, "Remove")
	case 1:
		mm.MoveToHead(k)
		if i := model.find(k); i >= 0 {
			kk, vv := model.keys[i], model.vals[i]
			model.removeAt(i)
			model.insertAt(0, kk, vv)
		}
		c12Check(mm, model, "MoveToHead")
	case 2:
		mm.MoveToTail(k)
		if i := model.find(k); i >= 0 {
			kk, vv := model.keys[i], model.vals[i]
			model.removeAt(i)
			model.insertAt(len(model.keys), kk, vv)
		}
		c12Check(mm, model, "MoveToTail")
	case 3:
		has := mm.Has(k)
		verifAssert(has == (model.find(k) >= 0), "C12/Has/agrees")
		got := mm.Get(k)
		if i := model.find(k); i >= 0 {
			verifAssert(got == model.vals[i], "C12/Get/value")
		} else {
			verifAssert(got == nil, "C12/Get/nil-when-missing")
		}
		c12Check(mm, model, "Has-Get")
	}
	verifReach("C12/remove-move/end")
}

//verif:opts maxpaths=200000
func VerifC12_rename() {
	mm, model, _, _ := c12Setup()
	oldK := verifString("old", 1)
	newK := verifString("new", 1)
	r := mm.Rename(oldK, newK)
	i := model.find(oldK)
	verifAssert(r == (i >= 0), "C12/Rename/reports-presence")
	if i >= 0 {
		j := model.find(newK)
		if j < 0 {
			model.keys[i] = newK
		} else if j != i {
			// both present: the value moves into the slot of the new name, the old field disappears
			model.vals[j] = model.vals[i]
			model.removeAt(i)
		}
	}
	c12Check(mm, model, "Rename")
	verifReach("C12/rename/end")
}

//verif:opts maxpaths=200000
func VerifC12_positional() {
	mm, model, _, n := c12Setup()
	pos := verifInt64("pos")
	switch verifChoice("op", 3) {
	case 0: // $[[pos]] = name
		name := verifString("name", 1)
		mm.PutNameWithPositionalIndex(pos, FromString(name))
		if i := c12Pos(pos, n); i >= 0 {
			j := model.find(name)
			if j >= 0 && j != i {
				model.keys[i] = name
				model.removeAt(j)
			} else {
				model.keys[i] = name
			}
		}
		c12Check(mm, model, "PutNameWithPositionalIndex")
	case 1: // $[[[pos]]] = value
		v := FromInt(7)
		mm.PutCopyWithPositionalIndex(pos, v)
		if i := c12Pos(pos, n); i >= 0 {
			got := mm.GetWithPositionalIndex(pos)
			verifAssert(got != nil && got != v, "C12/PutCopyWithPositionalIndex/stores-a-copy")
			model.vals[i] = got
		}
		c12Check(mm, model, "PutCopyWithPositionalIndex")
	case 2:
		mm.RemoveWithPositionalIndex(pos)
		if i := c12Pos(pos, n); i >= 0 {
			model.removeAt(i)
		}
		c12Check(mm, model, "RemoveWithPositionalIndex")
	}
	verifReach("C12/positional/end")
}

//verif:opts maxpaths=200000
func VerifC12_whole_map() {
	mm, model, _, n := c12Setup()
	switch verifChoice("op", 4) {
	case 0:
		mm.Clear()
		model.keys, model.vals = nil, nil
		c12Check(mm, model, "Clear")
	case 1:
		cp := mm.Copy()
		// the copy has the same keys in order with copied values; the original is untouched
		cm := &c12Model{keys: append([]string{}, model.keys...)}
		i := 0
		for pe := cp.Head; pe != nil && i < n; pe = pe.Next {
			verifAssert(pe.Value != model.vals[i], "C12/Copy/values-are-copies")
			cm.vals = append(cm.vals, pe.Value)
			i++
		}
		if i == n {
			c12Check(cp, cm, "Copy")
		} else {
			verifAssert(false, "C12/Copy/length")
		}
		c12Check(mm, model, "Copy-original")
	case 2: // label with 1..2 distinct new names
		nn := 1 + verifChoice("nnames", 2)
		names := []string{verifString("l0", 1)}
		if nn == 2 {
			names = append(names, verifString("l1", 1))
			verifAssume(names[0] != names[1])
		}
		mm.Label(names)
		// spec: the first len(names) fields take the new names; later fields whose name
		// collides with a new name disappear
		out := &c12Model{}
		for i := 0; i < n; i++ {
			if i < nn {
				out.keys = append(out.keys, names[i])
				out.vals = append(out.vals, model.vals[i])
				continue
			}
			clash := false
			for _, nm := range names {
				if nm == model.keys[i] && (n >= nn || i < n) {
					clash = true
				}
			}
			// only names actually used (min(nn, n) of them) can clash
			used := nn
			if n < nn {
				used = n
			}
			clash = false
			for u := 0; u < used; u++ {
				if names[u] == model.keys[i] {
					clash = true
				}
			}
			if !clash {
				out.keys = append(out.keys, model.keys[i])
				out.vals = append(out.vals, model.vals[i])
			}
		}
		c12Check(mm, out, "Label")
	case 3:
		mm.SortByKey()
		// insertion sort of the model by key
		for a := 1; a < len(model.keys); a++ {
			for b := a; b > 0 && model.keys[b] < model.keys[b-1]; b-- {
				model.keys[b], model.keys[b-1] = model.keys[b-1], model.keys[b]
				model.vals[b], model.vals[b-1] = model.vals[b-1], model.vals[b]
			}
		}
		c12Check(mm, model, "SortByKey")
	}
	verifReach("C12/whole/end")
}

// L-hash-agnostic (shared with C04): a wide record answers lookups the same before and after the
// lazily built index exists.
func VerifC12_lazy_index() {
	mm := newMlrmapLazyHashed()
	const w = 13
	var vals []*Mlrval
	for i := 0; i < w; i++ {
		v := FromInt(int64(i))
		vals = append(vals, v)
		mm.PutReference(string([]byte{byte('a' + i)}), v)
	}
	k := verifString("k", 1)
	got := mm.Get(k) // a lookup on a wide record: the index exists afterwards (PutReference looks up too)
	verifAssert(mm.keysToEntries != nil, "C12/lazy/index-built-on-wide-lookup")
	verifAssert(len(mm.keysToEntries) == w, "C12/lazy/index-complete")
	if k[0] >= 'a' && k[0] < 'a'+w {
		verifAssert(got == vals[verifConcretize(int64(k[0]-'a'), 16)], "C12/lazy/value-by-key")
	} else {
		verifAssert(got == nil, "C12/lazy/missing")
	}
	verifReach("C12/lazy/end")
}
