//go:build verif

package mlrval

// C04 — --hash-records / --no-hash-records leave the output unchanged: the same two-operation
// sequence (rename, put, remove, move-to-head/tail, lookups; names chosen symbolically among present
// and absent ones) applied to a record WITH the key index and to one WITHOUT it gives the same
// fields in the same order, the same lookup results and the same return values.

func c04Record(hashed bool) *Mlrmap {
	mm := NewMlrmap()
	for _, k := range []string{"a", "b", "c"} {
		mm.PutReference(k, FromString("v"+k))
	}
	if hashed {
		mm.keysToEntries = make(map[string]*MlrmapEntry)
		for pe := mm.Head; pe != nil; pe = pe.Next {
			mm.keysToEntries[pe.Key] = pe
		}
	} else {
		mm.keysToEntries = nil
	}
	return mm
}

func c04Apply(mm *Mlrmap, op int, k1, k2 string) string {
	switch op {
	case 0:
		if mm.Rename(k1, k2) {
			return "renamed"
		}
		return "absent"
	case 1:
		mm.PutCopy(k1, FromString("new"))
	case 2:
		if mm.Has(k1) {
			mm.Remove(k1)
			return "removed"
		}
	case 3:
		mm.MoveToHead(k1)
	case 4:
		mm.MoveToTail(k1)
	case 5:
		if !mm.Has(k1) { // precondition of PutReferenceAfter: the name is new (its callers guarantee it)
			mm.PutReferenceAfter(mm.Head, k1, FromString("after"))
		}
	}
	return ""
}

func c04Render(mm *Mlrmap) string {
	s := ""
	for pe := mm.Head; pe != nil; pe = pe.Next {
		s += pe.Key + "=" + pe.Value.String() + ","
	}
	for _, k := range []string{"a", "b", "c", "d", "e"} {
		v := mm.Get(k)
		if v == nil {
			s += "|-"
		} else {
			s += "|" + v.String()
		}
	}
	return s
}

func VerifC04_hashed_and_unhashed_records_agree() {
	names := []string{"a", "b", "c", "d", "e"}
	h, u := c04Record(true), c04Record(false)
	for step := 0; step < 2; step++ {
		op := verifChoice("op", 6)
		k1 := names[verifChoice("k1", len(names))]
		k2 := names[verifChoice("k2", len(names))]
		rh := c04Apply(h, op, k1, k2)
		ru := c04Apply(u, op, k1, k2)
		verifAssert(rh == ru, "C04/hash-records/same-return-value")
		verifAssert(c04Render(h) == c04Render(u), "C04/hash-records/same-fields-order-and-lookups")
	}
	verifReach("C04/hash-records/end")
}
