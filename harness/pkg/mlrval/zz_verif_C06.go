//go:build verif

package mlrval

// C06 — type inference from data follows the documented number grammar exactly.
// The oracle is a byte-level recogniser written from the property statement; it shares no code
// with pkg/scan or the inferrers.

const (
	c06String = iota
	c06Int
	c06Float
	c06Empty
	c06Unspecified // the statement does not fix the outcome (e.g. 17-digit hex)
)

func c06IsDec(c byte) bool { return c >= '0' && c <= '9' }
func c06IsOct(c byte) bool { return c >= '0' && c <= '7' }
func c06IsHex(c byte) bool {
	return (c >= '0' && c <= '9') || (c >= 'a' && c <= 'f') || (c >= 'A' && c <= 'F')
}
func c06HexVal(c byte) uint64 {
	if c >= '0' && c <= '9' {
		return uint64(c - '0')
	}
	if c >= 'a' && c <= 'f' {
		return uint64(c-'a') + 10
	}
	return uint64(c-'A') + 10
}

// float grammar  (D+ \.? D* | \. D+) ([eE] [+-]? D+)?  with at least one '.' or exponent
// (pure digit strings are ints).  DFA over the body (sign already stripped).
func c06FloatForm(b string) bool {
	st := 0 // 0 start, 1 int digits, 2 digits+dot (frac digits optional), 3 leading dot, 4 frac digits after leading dot, 5 e, 6 e sign, 7 exp digits, 9 dead
	for i := 0; i < len(b); i++ {
		c := b[i]
		d := c06IsDec(c)
		dot := c == '.'
		e := c == 'e' || c == 'E'
		sg := c == '+' || c == '-'
		nx := 9
		if st == 0 {
			if d {
				nx = 1
			} else if dot {
				nx = 3
			}
		} else if st == 1 {
			if d {
				nx = 1
			} else if dot {
				nx = 2
			} else if e {
				nx = 5
			}
		} else if st == 2 {
			if d {
				nx = 2
			} else if e {
				nx = 5
			}
		} else if st == 3 {
			if d {
				nx = 4
			}
		} else if st == 4 {
			if d {
				nx = 4
			} else if e {
				nx = 5
			}
		} else if st == 5 {
			if d {
				nx = 7
			} else if sg {
				nx = 6
			}
		} else if st == 6 {
			if d {
				nx = 7
			}
		} else if st == 7 {
			if d {
				nx = 7
			}
		}
		st = nx
	}
	return st == 2 || st == 4 || st == 7
}

// c06Classify returns the class the statement prescribes and, for ints, the value.
func c06Classify(s string, octalAsInt bool) (int, int64) {
	if len(s) == 0 {
		return c06Empty, 0
	}
	neg := false
	b := s
	if s[0] == '-' || s[0] == '+' {
		neg = s[0] == '-'
		b = s[1:]
	}
	if len(b) == 0 {
		return c06String, 0
	}
	sign := func(u uint64) int64 {
		if neg {
			return -int64(u)
		}
		return int64(u)
	}
	// prefixed forms
	if len(b) >= 2 && b[0] == '0' && (b[1] == 'x' || b[1] == 'X' || b[1] == 'b' || b[1] == 'B' || b[1] == 'o' || b[1] == 'O') {
		digs := b[2:]
		if len(digs) == 0 {
			return c06String, 0
		}
		var base uint64 = 16
		maxDigits := 16
		if b[1] == 'b' || b[1] == 'B' {
			base, maxDigits = 2, 63
		} else if b[1] == 'o' || b[1] == 'O' {
			base, maxDigits = 8, 21
		}
		ok := true
		var v uint64
		for i := 0; i < len(digs); i++ {
			c := digs[i]
			var good bool
			switch base {
			case 16:
				good = c06IsHex(c)
			case 8:
				good = c06IsOct(c)
			default:
				good = c == '0' || c == '1'
			}
			if !good {
				ok = false
			}
			v = v*base + c06HexVal(c)
		}
		if !ok {
			return c06String, 0
		}
		if len(digs) > maxDigits {
			return c06Unspecified, 0
		}
		if base == 16 && len(digs) == 16 && c06HexVal(digs[0]) >= 8 {
			if neg {
				return c06Unspecified, 0
			}
			return c06Int, int64(v) // two's complement negative
		}
		return c06Int, sign(v)
	}
	// pure digits
	allDec, allOct := true, true
	for i := 0; i < len(b); i++ {
		if !c06IsDec(b[i]) {
			allDec = false
		}
		if !c06IsOct(b[i]) {
			allOct = false
		}
	}
	if allDec {
		if len(b) > 1 && b[0] == '0' {
			// leading-zero form: string unless -O
			if !octalAsInt {
				return c06String, 0
			}
			var v uint64
			if allOct {
				for i := 0; i < len(b); i++ {
					v = v*8 + uint64(b[i]-'0')
				}
			} else {
				for i := 0; i < len(b); i++ {
					v = v*10 + uint64(b[i]-'0')
				}
			}
			if len(b) > 18 {
				return c06Unspecified, 0
			}
			return c06Int, sign(v)
		}
		// decimal int (no leading zero here); the magnitude must fit: decided on the digit
		// string itself (length, then lexicographic comparison with the limit), no arithmetic
		limit := "9223372036854775807"
		if neg {
			limit = "9223372036854775808"
		}
		over := len(b) > len(limit)
		if len(b) == len(limit) {
			// lexicographic: first differing digit decides
			gt, decided := false, false
			for i := 0; i < len(b); i++ {
				if !decided && b[i] != limit[i] {
					decided = true
					gt = b[i] > limit[i]
				}
			}
			over = gt
		}
		if over {
			return c06Float, 0 // "integers that do not fit in 64 bits become floats"
		}
		var v uint64
		for i := 0; i < len(b); i++ {
			v = v*10 + uint64(b[i]-'0')
		}
		return c06Int, sign(v)
	}
	if c06FloatForm(b) {
		return c06Float, 0
	}
	return c06String, 0
}

func c06Check(s string, octalAsInt bool, tag string) {
	want, wantVal := c06Classify(s, octalAsInt)
	mv := FromDeferredType(s)
	var got MVType
	if octalAsInt {
		inferWithOctalAsInt(mv)
		got = mv.mvtype
	} else {
		got = mv.Type()
	}
	switch want {
	case c06Empty:
		verifAssert(got == MT_VOID, "C06/"+tag+"/empty-is-empty")
	case c06String:
		verifAssert(got == MT_STRING, "C06/"+tag+"/string")
	case c06Int:
		verifAssert(got == MT_INT, "C06/"+tag+"/int")
		if got == MT_INT {
			verifAssert(mv.intf.(int64) == wantVal, "C06/"+tag+"/int-value")
		}
	case c06Float:
		verifAssert(got == MT_FLOAT, "C06/"+tag+"/float")
	}
	// in every case the original text is kept
	verifAssert(mv.printrepValid && mv.printrep == s, "C06/"+tag+"/text-kept")
	verifReach("C06/" + tag + "/end")
}

// all byte strings of length 0..N (N = 5 quick / 7 thorough), default inference
//verif:opts unwind=200 maxpaths=400000
func VerifC06_infer_bytes() {
	n := 6
	if verifTier() > 0 {
		n = 8
	}
	l := verifChoice("len", n)
	s := verifString("s", l)
	c06Check(s, false, "bytes")
}

// same under -O
//verif:opts unwind=200 maxpaths=400000
func VerifC06_infer_bytes_octal() {
	n := 6
	if verifTier() > 0 {
		n = 7
	}
	l := verifChoice("len", n)
	s := verifString("s", l)
	c06Check(s, true, "bytes-O")
}

// Long digit strings around the 2^63 / 2^64 / 10^k boundaries.  Bound: the string is one of a
// palette of boundary numerals with its last k digits (k = 3 quick / 4 thorough) and, separately,
// its first digit replaced by arbitrary decimal digits; optional sign.
//verif:opts unwind=400 maxpaths=400000 cap=30000
func VerifC06_infer_long_decimal() {
	palette := []string{"9223372036854775807", "18446744073709551615", "999999999999999999",
		"1000000000000000000", "10000000000000000000", "100000000000000000000"}
	base := palette[verifChoice("base", len(palette))]
	k := 3
	if verifTier() > 0 {
		k = 4
	}
	var body string
	if verifChoice("where", 2) == 0 {
		t := verifString("t", k)
		for i := 0; i < k; i++ {
			verifAssume(t[i] >= '0' && t[i] <= '9')
		}
		body = base[:len(base)-k] + t
	} else {
		h := verifString("h", 1)
		verifAssume(h[0] >= '1' && h[0] <= '9')
		body = h + base[1:]
	}
	s := body
	switch verifChoice("sign", 3) {
	case 1:
		s = "-" + body
	case 2:
		s = "+" + body
	}
	c06Check(s, false, "long-decimal")
}

// 15..17-digit hex around the two's-complement boundary: palette numeral with the first digit and
// the last two digits arbitrary hex digits.
//verif:opts unwind=400 maxpaths=400000 cap=30000
func VerifC06_infer_long_hex() {
	palette := []string{"7fffffffffffffff", "8000000000000000", "ffffffffffffffff", "0fffffffffffffff",
		"fffffffffffffff", "10000000000000000"}
	base := palette[verifChoice("base", len(palette))]
	h := verifString("h", 1)
	t := verifString("t", 2)
	body := h + base[1:len(base)-2] + t
	for i := 0; i < len(body); i++ {
		c := body[i]
		verifAssume((c >= '0' && c <= '9') || (c >= 'a' && c <= 'f') || (c >= 'A' && c <= 'F'))
	}
	s := "0x" + body
	if verifChoice("sign", 2) == 1 {
		s = "-0x" + body
	}
	c06Check(s, false, "long-hex")
}

// -S: everything is a string (or empty); -A: every int becomes a float of the same value.
//verif:opts unwind=200 maxpaths=400000
func VerifC06_infer_S_and_A() {
	n := 4
	if verifTier() > 0 {
		n = 6
	}
	l := verifChoice("len", n)
	s := verifString("s", l)
	if verifChoice("flag", 2) == 0 {
		mv := FromDeferredType(s)
		inferString(mv)
		if l == 0 {
			verifAssert(mv.mvtype == MT_VOID, "C06/S/empty")
		} else {
			verifAssert(mv.mvtype == MT_STRING, "C06/S/always-string")
		}
		verifAssert(mv.printrepValid && mv.printrep == s, "C06/S/text-kept")
	} else {
		want, wantVal := c06Classify(s, false)
		mv := FromDeferredType(s)
		inferWithIntAsFloat(mv)
		switch want {
		case c06Int:
			verifAssert(mv.mvtype == MT_FLOAT, "C06/A/int-becomes-float")
			if mv.mvtype == MT_FLOAT {
				verifAssert(mv.intf.(float64) == float64(wantVal), "C06/A/same-value")
			}
		case c06String:
			verifAssert(mv.mvtype == MT_STRING, "C06/A/string")
		case c06Empty:
			verifAssert(mv.mvtype == MT_VOID, "C06/A/empty")
		case c06Float:
			verifAssert(mv.mvtype == MT_FLOAT, "C06/A/float")
		}
		verifAssert(mv.printrepValid && mv.printrep == s, "C06/A/text-kept")
	}
	verifReach("C06/SA/end")
}
