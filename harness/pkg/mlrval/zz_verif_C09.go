//go:build verif

package mlrval

// C09(a) — the comparators behind sort and the sorting functions are total preorders with the
// documented cross-type collation (numeric order: numbers by value < booleans < empties < strings).

func c09Val(kind int, tag string) *Mlrval {
	switch kind {
	case 0:
		i := verifInt64(tag + "_i")
		verifAssume(i >= -(1<<53) && i <= (1<<53)) // "values exactly representable as doubles"
		return FromInt(i)
	case 1:
		f := verifFloat64(tag + "_f")
		verifAssume(f == f) // NaN excluded by the statement
		return FromFloat(f)
	case 2:
		return FromBool(verifBool(tag + "_b"))
	case 3:
		return VOID
	case 4:
		return FromString(verifString(tag+"_s", 1))
	case 5:
		return FromBytes([]byte{0x41})
	case 6:
		return FromArray([]*Mlrval{FromInt(1)})
	case 7:
		return FromMap(NewMlrmap())
	case 8:
		return FromFunction(func() {}, "f")
	case 9:
		return FromAnonymousError()
	case 10:
		return NULL
	}
	return ABSENT
}

func c09Sgn(x int) int {
	if x < 0 {
		return -1
	}
	if x > 0 {
		return 1
	}
	return 0
}

// antisymmetry, descending = reversed ascending, collation order, for all 144 kind pairs
//verif:opts cap=30000
func VerifC09_cmp_pairs() {
	k1 := verifChoice("k1", 12)
	k2 := verifChoice("k2", 12)
	a, b := c09Val(k1, "a"), c09Val(k2, "b")
	ab, ba := Cmp(a, b), Cmp(b, a)
	verifAssert(c09Sgn(ab) == -c09Sgn(ba), "C09/cmp/antisymmetric")
	verifAssert(NumericAscendingComparator(a, b) == ab, "C09/cmp/numeric-ascending-is-cmp")
	verifAssert(c09Sgn(NumericDescendingComparator(a, b)) == -c09Sgn(ab), "C09/cmp/descending-is-reversed-ascending")
	// collation by kind rank: numbers (0,1) < boolean (2) < empty (3) < string (4) < the rest in table order
	rank := func(k int) int {
		if k <= 1 {
			return 0
		}
		return k - 1
	}
	if rank(k1) < rank(k2) {
		verifAssert(ab < 0, "C09/cmp/collation-numbers-booleans-empties-strings")
	}
	if rank(k1) > rank(k2) {
		verifAssert(ab > 0, "C09/cmp/collation-reverse")
	}
	// within numbers: by value
	if k1 == 0 && k2 == 0 {
		x, y := a.intf.(int64), b.intf.(int64)
		verifAssert((ab < 0) == (x < y) && (ab == 0) == (x == y), "C09/cmp/ints-by-value")
	}
	if k1 == 1 && k2 == 1 {
		x, y := a.intf.(float64), b.intf.(float64)
		verifAssert((ab < 0) == (x < y) && (ab == 0) == (x == y), "C09/cmp/floats-by-value")
	}
	if k1 == 0 && k2 == 1 {
		x, y := float64(a.intf.(int64)), b.intf.(float64)
		verifAssert((ab < 0) == (x < y) && (ab == 0) == (x == y), "C09/cmp/int-float-by-value")
	}
	if k1 == 4 && k2 == 4 {
		x, y := a.printrep, b.printrep
		verifAssert((ab < 0) == (x < y) && (ab == 0) == (x == y), "C09/cmp/strings-lexically")
	}
	verifReach("C09/cmp-pairs/end")
}

// reflexivity and transitivity over the value kinds that carry payloads
//verif:opts cap=60000
func VerifC09_cmp_transitive() {
	kinds := 5
	k1 := verifChoice("k1", kinds)
	k2 := verifChoice("k2", kinds)
	k3 := verifChoice("k3", kinds)
	if verifTier() == 0 {
		// quick: at most one float among the three (two floats and an int is the slow FP case)
		nf := 0
		for _, k := range []int{k1, k2, k3} {
			if k == 1 {
				nf++
			}
		}
		if nf > 1 {
			verifReach("C09/cmp-trans/skip")
			return
		}
	}
	a, b, c := c09Val(k1, "a"), c09Val(k2, "b"), c09Val(k3, "c")
	verifAssert(Cmp(a, a) == 0, "C09/cmp/reflexive")
	if Cmp(a, b) <= 0 && Cmp(b, c) <= 0 {
		verifAssert(Cmp(a, c) <= 0, "C09/cmp/transitive")
	}
	verifReach("C09/cmp-trans/end")
}

// lexical comparators on strings: total preorder, descending = reversed
func VerifC09_lexical() {
	n := 2
	a := FromString(verifString("a", verifChoice("la", n+1)))
	b := FromString(verifString("b", verifChoice("lb", n+1)))
	c := FromString(verifString("c", verifChoice("lc", n+1)))
	ab, ba := LexicalAscendingComparator(a, b), LexicalAscendingComparator(b, a)
	verifAssert(ab == -ba, "C09/lexical/antisymmetric")
	verifAssert(LexicalDescendingComparator(a, b) == ba, "C09/lexical/descending-is-reversed")
	verifAssert((ab < 0) == (a.printrep < b.printrep) && (ab == 0) == (a.printrep == b.printrep), "C09/lexical/by-bytes")
	if ab <= 0 && LexicalAscendingComparator(b, c) <= 0 {
		verifAssert(LexicalAscendingComparator(a, c) <= 0, "C09/lexical/transitive")
	}
	verifReach("C09/lexical/end")
}
