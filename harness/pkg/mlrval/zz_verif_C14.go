//go:build verif

package mlrval

// C14 (run-time support of the DSL): 1-up indexing with negative aliases, auto-extend with null gaps.

// UnaliasArrayLengthIndex for ALL lengths n >= 0 and ALL indices: 1..n -> 0..n-1, -n..-1 -> 0..n-1,
// 0 invalid, everything else out of bounds; an in-bounds answer is always a valid Go index (no wrap).
func VerifC14_unalias_index() {
	n := verifInt("n")
	m := verifInt("mindex")
	verifAssume(n >= 0)
	z, ok := UnaliasArrayLengthIndex(n, m)
	if m >= 1 && m <= n {
		verifAssert(ok && z == m-1, "C14/index/positive-in-bounds")
	} else if m <= -1 && m >= -n {
		verifAssert(ok && z == n+m, "C14/index/negative-alias")
	} else {
		verifAssert(!ok, "C14/index/out-of-bounds-or-zero-is-invalid")
	}
	if ok {
		verifAssert(z >= 0 && z < n, "C14/index/in-bounds-answer-is-a-valid-go-index")
	}
	verifReach("C14/index/end")
}

// x[i] = v on an array of length 0..3 for EVERY int64 i: in bounds -> that slot gets a copy, others
// untouched; 0 and negative out-of-bounds -> error, array unchanged; beyond the end -> extended to
// exactly i with JSON-null gaps; and no index whatsoever crashes (allocation-size assertion).
func VerifC14_put_indexed_on_array() {
	l := verifChoice("len", 4)
	var arr []*Mlrval
	var orig []*Mlrval
	for k := 0; k < l; k++ {
		v := FromInt(int64(10 + k))
		arr = append(arr, v)
		orig = append(orig, v)
	}
	i := verifInt64("i")
	rv := FromInt(99)
	err := putIndexedOnArray(&arr, []*Mlrval{FromInt(i)}, rv)
	switch {
	case (i >= 1 && i <= int64(l)) || (i <= -1 && i >= -int64(l)):
		z := i - 1
		if i < 0 {
			z = int64(l) + i
		}
		verifAssert(err == nil && len(arr) == l, "C14/put/in-bounds-keeps-length")
		if err == nil && len(arr) == l {
			zc := verifConcretize(z, 8)
			for k := 0; k < l; k++ {
				if int64(k) == zc {
					verifAssert(arr[k] != rv && arr[k].IsInt() && arr[k].intf.(int64) == 99, "C14/put/slot-gets-a-copy")
				} else {
					verifAssert(arr[k] == orig[k], "C14/put/other-slots-untouched")
				}
			}
		}
	case i <= 0:
		verifAssert(err != nil, "C14/put/zero-or-negative-out-of-bounds-is-an-error")
		verifAssert(len(arr) == l, "C14/put/error-leaves-array-unchanged")
	default:
		// beyond the end: auto-extend with null gaps (or a refusal for absurd sizes)
		if err == nil {
			verifAssert(int64(len(arr)) == i, "C14/put/extended-to-exactly-the-index")
			if int64(len(arr)) == i && i <= 8 {
				ic := int(verifConcretize(i, 16))
				for k := 0; k < l; k++ {
					verifAssert(arr[k] == orig[k], "C14/put/extend-keeps-existing")
				}
				for k := l; k < ic-1; k++ {
					verifAssert(arr[k].IsNull(), "C14/put/gaps-are-json-null")
				}
				verifAssert(arr[ic-1].IsInt() && arr[ic-1].intf.(int64) == 99, "C14/put/new-last-slot")
			}
		}
	}
	verifReach("C14/put/end")
}

// x[i][j] = v and x[i]["k"] = v on an array of length 0..2 for small symbolic i, j (auto-create of the
// inner collection, auto-extend of the outer one): the result holds v at that place, the gaps are
// JSON null, and the process-wide shared values (NULL, ABSENT, VOID) are never modified in place.
func VerifC14_put_indexed_two_levels() {
	l := verifChoice("len", 3)
	var arr []*Mlrval
	for k := 0; k < l; k++ {
		arr = append(arr, FromInt(int64(10+k)))
	}
	base := FromArray(arr)
	i := verifInt64("i")
	verifAssume(i >= -3 && i <= 5)
	var second *Mlrval
	inner := verifChoice("inner_index_kind", 2)
	j := verifInt64("j")
	verifAssume(j >= -2 && j <= 3)
	if inner == 0 {
		second = FromInt(j)
	} else {
		second = FromString("k")
	}
	err := base.PutIndexed([]*Mlrval{FromInt(i), second}, FromInt(99))
	verifAssert(NULL.Type() == MT_NULL && NULL.intf == nil, "C14/put2/the-shared-null-is-never-modified")
	verifAssert(ABSENT.IsAbsent() && VOID.IsVoid(), "C14/put2/the-shared-absent-and-empty-are-never-modified")
	if err == nil && base.IsArray() {
		out := base.intf.([]*Mlrval)
		ic := verifConcretize(i, 16)
		z := ic - 1
		if ic < 0 {
			z = int64(len(out)) + ic
		}
		verifAssert(z >= 0 && z < int64(len(out)), "C14/put2/slot-exists-after-a-successful-assignment")
		if z >= 0 && z < int64(len(out)) {
			slot := out[z]
			if inner == 1 {
				verifAssert(slot.IsMap(), "C14/put2/string-index-auto-creates-a-map")
				if slot.IsMap() {
					v := slot.intf.(*Mlrmap).Get("k")
					verifAssert(v != nil && v.IsInt() && v.intf.(int64) == 99, "C14/put2/value-stored")
				}
			} else {
				verifAssert(slot.IsArray(), "C14/put2/int-index-auto-creates-an-array")
			}
			for k := int64(l); k < z; k++ {
				verifAssert(out[k].IsNull() && out[k] != slot, "C14/put2/gaps-are-json-null")
			}
		}
	}
	verifReach("C14/put2/end")
}
