//go:build verif

package strptime

// C16/C18 — the vendored strptime never slices past the end of its input: arbitrary input bytes of
// length 0..4 (quick) / 0..6 (thorough) against a palette of formats with literal prefixes,
// literal suffixes, %% and adjacent conversions.  Assertions: the engine's implicit ones (slice
// and index bounds, nil) on every path; acceptance/rejection is not asserted here.

//verif:opts unwind=400 maxsteps=400000 maxpaths=100000 cap=5000 samples=2 tier=thorough
func VerifC16_strptime_bounds() {
	formats := []string{"xyz%Y", "%Y%%", "%H:%M", "ab%Hcd", "%m%d", "%y%%%m", "%Y", "%%%Y", "%Y-%m", "%d/%m", "%s", "%j", "%Y."}
	nf, n := 6, 4
	if verifTier() > 0 {
		nf, n = len(formats), 6
	}
	f := formats[verifChoice("format", nf)]
	l := verifChoice("len", n)
	in := verifString("in", l)
	_, err := Parse(in, f)
	_ = err
	verifReach("C16/strptime/end")
}
