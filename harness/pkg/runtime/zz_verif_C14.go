//go:build verif

package runtime

// C14 (scoping): the real Stack (frame sets, frame pool with clear-on-reuse, get/set/define/unset)
// against a reference model — a list of dictionaries with innermost-out lookup, undeclared
// assignment updating the nearest enclosing binding else defining at the current scope, frame-set
// isolation for calls — over EVERY sequence of 4 (quick) / 6 (thorough) operations on two names.

import (
	"github.com/johnkerl/miller/v6/pkg/mlrval"
)

const c14Absent = int64(-1)

type c14Ref struct {
	sets [][]map[string]int64 // frame sets -> frames -> bindings
}

func (r *c14Ref) frames() []map[string]int64 { return r.sets[len(r.sets)-1] }

func (r *c14Ref) get(name string) (int64, bool) {
	fs := r.frames()
	for k := len(fs) - 1; k >= 0; k-- {
		if v, ok := fs[k][name]; ok {
			return v, true
		}
	}
	return 0, false
}

//verif:opts maxpaths_thorough=900000
func VerifC14_stack_scoping() {
	steps := 4
	if verifTier() > 0 {
		steps = 5 // (6 exhausted the path budget: not registered)
	}
	st := NewStack()
	ref := &c14Ref{sets: [][]map[string]int64{{map[string]int64{}}}}
	vars := []*StackVariable{NewStackVariable("x"), NewStackVariable("y")}
	names := []string{"x", "y"}
	next := int64(1)
	for s := 0; s < steps; s++ {
		op := verifChoice("op", 8)
		vi := 0
		if op >= 4 {
			vi = verifChoice("var", 2)
		}
		switch op {
		case 0:
			st.PushStackFrame()
			ref.sets[len(ref.sets)-1] = append(ref.frames(), map[string]int64{})
		case 1:
			if len(ref.frames()) > 1 {
				st.PopStackFrame()
				ref.sets[len(ref.sets)-1] = ref.frames()[:len(ref.frames())-1]
			}
		case 2:
			st.PushStackFrameSet()
			ref.sets = append(ref.sets, []map[string]int64{{}})
		case 3:
			if len(ref.sets) > 1 {
				st.PopStackFrameSet()
				ref.sets = ref.sets[:len(ref.sets)-1]
			}
		case 4: // var x = v : defines at the current scope; redefinition in the same scope is an error
			v := next
			next++
			err := st.DefineTypedAtScope(vars[vi], "any", mlrval.FromInt(v))
			fs := ref.frames()
			if _, dup := fs[len(fs)-1][names[vi]]; dup {
				verifAssert(err != nil, "C14/stack/redefinition-in-same-scope-is-an-error")
			} else {
				verifAssert(err == nil, "C14/stack/define-ok")
				fs[len(fs)-1][names[vi]] = v
			}
		case 5: // x = v : updates the nearest enclosing binding, else defines at the current scope
			v := next
			next++
			err := st.Set(vars[vi], mlrval.FromInt(v))
			verifAssert(err == nil, "C14/stack/set-ok")
			fs := ref.frames()
			done := false
			for k := len(fs) - 1; k >= 0 && !done; k-- {
				if _, ok := fs[k][names[vi]]; ok {
					fs[k][names[vi]] = v
					done = true
				}
			}
			if !done {
				fs[len(fs)-1][names[vi]] = v
			}
		case 6: // unset x : the nearest enclosing binding keeps its declaration and reads as absent
			st.Unset(vars[vi])
			fs := ref.frames()
			for k := len(fs) - 1; k >= 0; k-- {
				if _, ok := fs[k][names[vi]]; ok {
					fs[k][names[vi]] = c14Absent
					break
				}
			}
		case 7: // read
		}
		// after every step both names read as the model says (a stale binding from a pooled frame
		// or another frame set would show here)
		for q := 0; q < 2; q++ {
			got := st.Get(vars[q])
			want, ok := ref.get(names[q])
			if ok && want == c14Absent {
				verifAssert(got != nil && got.IsAbsent(), "C14/stack/unset-binding-reads-absent")
			} else if ok {
				verifAssert(got != nil && got.IsInt(), "C14/stack/visible-binding-is-found")
				if got != nil && got.IsInt() {
					gv, _ := got.GetIntValue()
					verifAssert(gv == want, "C14/stack/innermost-binding-wins")
				}
			} else {
				verifAssert(got == nil || got.IsAbsent(), "C14/stack/no-stale-or-foreign-binding-visible")
			}
		}
	}
	verifReach("C14/stack/end")
}
