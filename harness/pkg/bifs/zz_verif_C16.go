//go:build verif

package bifs

// C16 — Miller's own arithmetic around the calendar: the d/h/m/s split.

import (
	"github.com/johnkerl/miller/v6/pkg/mlrval"
)

// splitIntToDHMS for ALL int64: the parts recombine to the input, the leading non-zero unit
// carries the sign and the others lie in [0,24) / [0,60).
//verif:opts cap=120000
func VerifC16_split_dhms() {
	u := verifInt64("u")
	var d, h, m, s int64
	splitIntToDHMS(u, &d, &h, &m, &s)
	// recombination: the sign sits on the leading non-zero unit and applies to the whole quantity,
	// e.g. -512 s is "-8m32s"
	abs := func(x int64) int64 {
		if x < 0 {
			return -x
		}
		return x
	}
	mag := abs(d)*86400 + abs(h)*3600 + abs(m)*60 + abs(s)
	// exact recombination: |u| < 2^16 in the quick tier, < 2^20 in the thorough tier (2^31 was not discharged within the cap) (64-bit division
	// by 60, 60, 24 against the multiplications is not decided by any back end beyond that);
	// for ALL int64 the parts must equal the textbook split of the magnitude (below)
	if (verifTier() > 0 && u > -(1<<20) && u < (1<<20)) || (u > -(1<<16) && u < (1<<16)) {
		if u >= 0 {
			verifAssert(mag == u, "C16/dhms/parts-recombine")
		} else {
			verifAssert(-mag == u, "C16/dhms/parts-recombine-negative")
		}
	}
	if u >= 0 {
		verifAssert(d >= 0 && h >= 0 && h < 24 && m >= 0 && m < 60 && s >= 0 && s < 60, "C16/dhms/ranges-nonnegative")
	} else {
		// the leading non-zero unit is negative, the lower ones are non-negative magnitudes
		if d != 0 {
			verifAssert(d < 0 && h >= 0 && h < 24 && m >= 0 && m < 60 && s >= 0 && s < 60, "C16/dhms/sign-on-days")
		} else if h != 0 {
			verifAssert(h < 0 && h > -24 && m >= 0 && m < 60 && s >= 0 && s < 60, "C16/dhms/sign-on-hours")
		} else if m != 0 {
			verifAssert(m < 0 && m > -60 && s >= 0 && s < 60, "C16/dhms/sign-on-minutes")
		} else {
			verifAssert(s < 0 && s > -60, "C16/dhms/sign-on-seconds")
		}
	}
	// textbook split of the unsigned magnitude, for all int64 including the minimum
	um := uint64(u)
	if u < 0 {
		um = -um
	}
	q1 := um / 60
	q2 := q1 / 60
	rs, rm, rh, rd := um%60, q1%60, q2%24, q2/24
	verifAssert(uint64(abs(s)) == rs && uint64(abs(m)) == rm && uint64(abs(h)) == rh && uint64(abs(d)) == rd, "C16/dhms/parts-are-the-textbook-split")
	verifReach("C16/dhms/end")
}

// sec2hms/hms2sec and sec2dhms/dhms2sec are mutually inverse on integers, negatives included.
// The texts are produced by fmt and parsed by fmt.Sscanf, which the engine only runs on concrete
// values, so x is a symbolic offset inside one of a palette of 60-second windows (around zero, the
// minute, hour, day and year boundaries of both signs, and both ends of int64) that the solver
// enumerates completely (verifConcretize): every integer of every window is decided.
func c16WindowInt() int64 {
	bases := []int64{-30, 31, 3570, -3630, 86370, -86430, 31535970, -31536030, 359970, -360030,
		-9223372036854775808, 9223372036854775807 - 59}
	if verifTier() > 0 {
		bases = append(bases, 100*86400-30, -100*86400-30, 1<<31-30, -(1 << 31) - 30, 1<<53-30, -(1 << 53) - 30)
	}
	b := bases[verifChoice("window", len(bases))]
	off := verifInt64("offset")
	verifAssume(off >= 0 && off < 60)
	return verifConcretize(b+off, 64)
}

//verif:opts maxpaths=20000
func VerifC16_int_inverse_pairs() {
	x := c16WindowInt()
	hms := BIF_sec2hms(mlrval.FromInt(x))
	verifAssert(hms.IsStringOrVoid() && !hms.IsError(), "C16/hms/sec2hms-gives-text")
	back := BIF_hms2sec(mlrval.FromString(hms.String()))
	verifAssert(back.IsInt() && back.AcquireIntValue() == x, "C16/hms/hms2sec-inverts-sec2hms")
	dhms := BIF_sec2dhms(mlrval.FromInt(x))
	verifAssert(dhms.IsStringOrVoid() && !dhms.IsError(), "C16/dhms/sec2dhms-gives-text")
	back2 := BIF_dhms2sec(mlrval.FromString(dhms.String()))
	verifAssert(back2.IsInt() && back2.AcquireIntValue() == x, "C16/dhms/dhms2sec-inverts-sec2dhms")
	// the float renderings of the same integer parse back to it (to 1e-6)
	fx := float64(x)
	if x > -(1<<53) && x < 1<<53 {
		fh := BIF_hms2fsec(mlrval.FromString(BIF_fsec2hms(mlrval.FromFloat(fx)).String()))
		verifAssert(fh.IsFloat() && fh.AcquireFloatValue()-fx <= 1e-6 && fx-fh.AcquireFloatValue() <= 1e-6, "C16/fhms/hms2fsec-inverts-fsec2hms")
		fd := BIF_dhms2fsec(mlrval.FromString(BIF_fsec2dhms(mlrval.FromFloat(fx)).String()))
		verifAssert(fd.IsFloat() && fd.AcquireFloatValue()-fx <= 1e-6 && fx-fd.AcquireFloatValue() <= 1e-6, "C16/fdhms/dhms2fsec-inverts-fsec2dhms")
	}
	verifReach("C16/inverse/end")
}

// sec2gmt / sec2gmtdate print what the proleptic Gregorian calendar says and gmt2sec parses it back,
// across years 1..9999: x is a symbolic offset in one of a palette of 60-second windows (epoch,
// negative times, leap days of 2000 / 1600, the non-leap Februaries of 1900 / 2100, a year end, 2038,
// both ends of the int64-nanosecond range, the first minute of year 1 and the last of year 9999) that
// the solver enumerates completely.  Reference: days-from-civil arithmetic written here (not the
// time package).  With n decimals an integer instant shows n zeros.
func c16Civil(days int64) (y, m, d int64) { // Howard Hinnant's civil_from_days
	z := days + 719468
	era := z / 146097
	if z < 0 {
		era = (z - 146096) / 146097
	}
	doe := z - era*146097
	yoe := (doe - doe/1460 + doe/36524 - doe/146096) / 365
	y = yoe + era*400
	doy := doe - (365*yoe + yoe/4 - yoe/100)
	mp := (5*doy + 2) / 153
	d = doy - (153*mp+2)/5 + 1
	m = mp + 3
	if m > 12 {
		m -= 12
	}
	if m <= 2 {
		y++
	}
	return
}

func c16Pad(v int64, w int) string {
	s := ""
	for i := 0; i < w; i++ {
		s = string(rune('0'+v%10)) + s
		v /= 10
	}
	return s
}

//verif:opts maxpaths=20000
func VerifC16_gmt_calendar_and_inverse() {
	bases := []int64{-30, 951782370, 946684770, 4107542370, 2147483618, -2203891230, -11670998430, -62135596800, 253402300740,
		9223372036 - 30, -9223372036 - 30}
	b := bases[verifChoice("window", len(bases))]
	off := verifInt64("offset")
	verifAssume(off >= 0 && off < 60)
	x := verifConcretize(b+off, 64)
	days, rem := x/86400, x%86400
	if rem < 0 {
		days, rem = days-1, rem+86400
	}
	y, m, d := c16Civil(days)
	date := c16Pad(y, 4) + "-" + c16Pad(m, 2) + "-" + c16Pad(d, 2)
	want := date + "T" + c16Pad(rem/3600, 2) + ":" + c16Pad(rem/60%60, 2) + ":" + c16Pad(rem%60, 2) + "Z"
	g := BIF_sec2gmt_unary(mlrval.FromInt(x))
	verifAssert(g.String() == want, "C16/gmt/sec2gmt-is-the-gregorian-calendar")
	verifAssert(BIF_sec2gmtdate(mlrval.FromInt(x)).String() == date, "C16/gmt/sec2gmtdate-is-the-date-part")
	back := BIF_gmt2sec(mlrval.FromString(want))
	f, ok := back.GetNumericToFloatValue()
	verifAssert(ok && f == float64(x), "C16/gmt/gmt2sec-inverts-sec2gmt")
	n := verifChoice("decimals", 10)
	gn := BIF_sec2gmt_binary(mlrval.FromInt(x), mlrval.FromInt(int64(n)))
	wn := want
	if n > 0 {
		wn = want[:len(want)-1] + "." + c16Pad(0, n) + "Z"
	}
	verifAssert(gn.String() == wn, "C16/gmt/n-decimals-of-an-integer-instant-are-zeros")
	// non-numeric and empty inputs are left as they are
	verifAssert(BIF_sec2gmt_unary(mlrval.FromString("abc")).String() == "abc", "C16/gmt/text-left-unchanged")
	verifAssert(BIF_sec2gmt_unary(mlrval.VOID).String() == "", "C16/gmt/empty-left-unchanged")
	verifReach("C16/gmt/end")
}
