//go:build verif

package bifs

// C16 — Miller's own arithmetic around the calendar: the d/h/m/s split.

// splitIntToDHMS for ALL int64: the parts recombine to the input, the leading non-zero unit
// carries the sign and the others lie in [0,24) / [0,60).
//verif:opts cap=120000
func VerifC16_split_dhms() {
	u := verifInt64("u")
	var d, h, m, s int64
	splitIntToDHMS(u, &d, &h, &m, &s)
	// recombination: the sign sits on the leading non-zero unit and applies to the whole quantity,
	// e.g. -512 s is "-8m32s"
	abs := func(x int64) int64 {
		if x < 0 {
			return -x
		}
		return x
	}
	mag := abs(d)*86400 + abs(h)*3600 + abs(m)*60 + abs(s)
	// exact recombination: |u| < 2^16 in the quick tier, < 2^31 in the thorough tier (64-bit division
	// by 60, 60, 24 against the multiplications is not decided by any back end beyond that);
	// for ALL int64 the parts must equal the textbook split of the magnitude (below)
	if (verifTier() > 0 && u > -(1<<31) && u < (1<<31)) || (u > -(1<<16) && u < (1<<16)) {
		if u >= 0 {
			verifAssert(mag == u, "C16/dhms/parts-recombine")
		} else {
			verifAssert(-mag == u, "C16/dhms/parts-recombine-negative")
		}
	}
	if u >= 0 {
		verifAssert(d >= 0 && h >= 0 && h < 24 && m >= 0 && m < 60 && s >= 0 && s < 60, "C16/dhms/ranges-nonnegative")
	} else {
		// the leading non-zero unit is negative, the lower ones are non-negative magnitudes
		if d != 0 {
			verifAssert(d < 0 && h >= 0 && h < 24 && m >= 0 && m < 60 && s >= 0 && s < 60, "C16/dhms/sign-on-days")
		} else if h != 0 {
			verifAssert(h < 0 && h > -24 && m >= 0 && m < 60 && s >= 0 && s < 60, "C16/dhms/sign-on-hours")
		} else if m != 0 {
			verifAssert(m < 0 && m > -60 && s >= 0 && s < 60, "C16/dhms/sign-on-minutes")
		} else {
			verifAssert(s < 0 && s > -60, "C16/dhms/sign-on-seconds")
		}
	}
	// textbook split of the unsigned magnitude, for all int64 including the minimum
	um := uint64(u)
	if u < 0 {
		um = -um
	}
	q1 := um / 60
	q2 := q1 / 60
	rs, rm, rh, rd := um%60, q1%60, q2%24, q2/24
	verifAssert(uint64(abs(s)) == rs && uint64(abs(m)) == rm && uint64(abs(h)) == rh && uint64(abs(d)) == rd, "C16/dhms/parts-are-the-textbook-split")
	verifReach("C16/dhms/end")
}
