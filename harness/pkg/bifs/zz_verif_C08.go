//go:build verif

package bifs

// C08 — absent and empty values obey the documented null-data algebra.
// Every cell (operator, kind1, kind2) of the disposition matrices is executed through the real
// BIF_* entry with symbolic payloads and compared with the rules of the statement.  Cells the
// statement does not constrain are only required not to panic.

import (
	"math"

	"github.com/johnkerl/miller/v6/pkg/mlrval"
)

const (
	kINT = iota
	kFLOAT
	kBOOL
	kVOID
	kSTRING
	kBYTES
	kARRAY
	kMAP
	kFUNC
	kERROR
	kNULL
	kABSENT
	kDIM
)

// operand of the given kind with a symbolic payload
func c08Operand(kind int, tag string) *mlrval.Mlrval {
	switch kind {
	case kINT:
		return mlrval.FromInt(verifInt64(tag + "_i"))
	case kFLOAT:
		f := verifFloat64(tag + "_f")
		verifAssume(f == f) // NaN payloads are C07's business
		return mlrval.FromFloat(f)
	case kBOOL:
		return mlrval.FromBool(verifBool(tag + "_b"))
	case kVOID:
		return mlrval.VOID
	case kSTRING:
		s := verifString(tag+"_s", 1)
		return mlrval.FromString(s)
	case kBYTES:
		return mlrval.FromBytes(verifBytes(tag+"_y", 1))
	case kARRAY:
		return mlrval.FromArray([]*mlrval.Mlrval{mlrval.FromInt(verifInt64(tag + "_a"))})
	case kMAP:
		m := mlrval.NewMlrmap()
		m.PutReference("k", mlrval.FromInt(verifInt64(tag+"_m")))
		return mlrval.FromMap(m)
	case kFUNC:
		return mlrval.FromFunction(func() {}, "f")
	case kERROR:
		return mlrval.FromAnonymousError()
	case kNULL:
		return mlrval.NULL
	case kABSENT:
		return mlrval.ABSENT
	}
	return nil
}

func c08Kind(mv *mlrval.Mlrval) int { return int(mv.Type()) }

// same number: same kind and same value (floats bitwise-equal or both NaN)
func c08SameNumber(a, b *mlrval.Mlrval) bool {
	if a.IsInt() && b.IsInt() {
		return a.AcquireIntValue() == b.AcquireIntValue()
	}
	if a.IsFloat() && b.IsFloat() {
		x, y := a.AcquireFloatValue(), b.AcquireFloatValue()
		return x == y || (x != x && y != y)
	}
	return false
}

func c08NegNumber(a, b *mlrval.Mlrval) bool { // a == -b
	if a.IsInt() && b.IsInt() {
		return a.AcquireIntValue() == -b.AcquireIntValue()
	}
	if a.IsFloat() && b.IsFloat() {
		return a.AcquireFloatValue() == -b.AcquireFloatValue()
	}
	if a.IsFloat() && b.IsInt() {
		// -(-2^63) overflows to float
		return b.AcquireIntValue() == math.MinInt64
	}
	return false
}

type c08Op struct {
	name        string
	f           BinaryFunc
	accumulates bool // absent is a two-sided identity (R1 left and right)
	commutative bool
	intOnly     bool // bitwise: numbers are ints only
	emptyRule   int  // 0 none, 1 empty yields the number both sides (+ * min), 2 minus, 3 max (known finding)
}

func c08Ops() []c08Op {
	return []c08Op{
		{"+", BIF_plus_binary, true, true, false, 1},
		{"-", BIF_minus_binary, true, false, false, 2},
		{"*", BIF_times, true, true, false, 1},
		{"/", BIF_divide, false, false, false, 0},
		{"//", BIF_int_divide, false, false, false, 0},
		{"%", BIF_modulus, false, false, false, 0},
		{"**", BIF_pow, false, false, false, 0},
		{".+", BIF_dot_plus, true, true, false, 0},
		{".-", BIF_dot_minus, true, false, false, 0},
		{".*", BIF_dot_times, true, true, false, 0},
		{"./", BIF_dot_divide, false, false, false, 0},
		{"&", BIF_bitwise_and, true, true, true, 0},
		{"|", BIF_bitwise_or, true, true, true, 0},
		{"^", BIF_bitwise_xor, true, true, true, 0},
		{"<<", BIF_left_shift, false, false, true, 0},
		{">>", BIF_signed_right_shift, false, false, true, 0},
		{">>>", BIF_unsigned_right_shift, false, false, true, 0},
		{"min", BIF_min_binary, true, true, false, 1},
		{"max", BIF_max_binary, true, true, false, 3},
	}
}

func c08IsNumberKind(k int, intOnly bool) bool {
	return k == kINT || (k == kFLOAT && !intOnly)
}

func c08IsScalarKind(k int) bool {
	return k == kINT || k == kFLOAT || k == kBOOL || k == kVOID || k == kSTRING
}

// One cell of one binary operator.
//verif:opts maxpaths=200000
func VerifC08_binary_cells() {
	ops := c08Ops()
	oi := verifChoice("op", len(ops))
	op := ops[oi]
	k1 := verifChoice("k1", kDIM)
	k2 := verifChoice("k2", kDIM)
	a := c08Operand(k1, "a")
	b := c08Operand(k2, "b")
	out := op.f(a, b)
	verifAssert(out != nil, "C08/"+op.name+"/returns-a-value")
	pre := "C08/" + op.name + "/"

	// R2: absent op absent is absent
	if k1 == kABSENT && k2 == kABSENT {
		verifAssert(out.IsAbsent(), pre+"absent-absent-is-absent")
	}
	// R1: absent is the identity of accumulation
	if k1 == kABSENT && c08IsNumberKind(k2, op.intOnly) && op.accumulates {
		verifAssert(c08SameNumber(out, b), pre+"absent-op-x-is-x")
	}
	if k2 == kABSENT && c08IsNumberKind(k1, op.intOnly) {
		// x op absent = x for every arithmetic/bitwise/dot/min/max operator
		verifAssert(c08SameNumber(out, a), pre+"x-op-absent-is-x")
	}
	// R4: empty with a number
	if op.emptyRule != 0 {
		if k1 == kVOID && c08IsNumberKind(k2, false) {
			switch op.emptyRule {
			case 1:
				verifAssert(c08SameNumber(out, b), pre+"empty-op-number-is-the-number")
			case 2:
				// "empty works like 0 for subtraction": the number up to sign
				verifAssert(c08SameNumber(out, b) || c08NegNumber(out, b), pre+"empty-minus-number-is-the-number-up-to-sign")
			case 3:
				if !verifKnown("C08-max-empty") {
					verifAssert(c08SameNumber(out, b), pre+"empty-op-number-is-the-number")
				}
			}
		}
		if k2 == kVOID && c08IsNumberKind(k1, false) {
			if op.emptyRule != 3 || !verifKnown("C08-max-empty") {
				verifAssert(c08SameNumber(out, a), pre+"number-op-empty-is-the-number")
			}
		}
	}
	// R5: an error operand combined with any scalar yields an error
	if (k1 == kERROR && c08IsScalarKind(k2)) || (k2 == kERROR && c08IsScalarKind(k1)) {
		verifAssert(out.IsError(), pre+"error-with-scalar-is-error")
	}
	// R6: commutative operators give the same result kind for (a,b) and (b,a)
	if op.commutative {
		rev := op.f(b, a)
		verifAssert(c08Kind(rev) == c08Kind(out), pre+"commutative-same-kind")
	}
	verifReach("C08/binary/end")
}

// confirms the known finding: max(empty, number) is the empty value, the statement says the number
//verif:opts expect-violation=C08-max-empty
func VerifC08_known_max_empty() {
	x := verifInt64("x")
	a := BIF_max_binary(mlrval.VOID, mlrval.FromInt(x))
	verifAssert(a.IsInt(), "C08/max/empty-op-number-is-the-number")
	b := BIF_max_binary(mlrval.FromInt(x), mlrval.VOID)
	verifAssert(b.IsInt(), "C08/max/number-op-empty-is-the-number")
	verifReach("C08/known-max-empty/end")
}

// R3: math-library functions (and unary operators) of absent are absent; of error are errors.
func VerifC08_unary_cells() {
	fs := []UnaryFunc{BIF_acos, BIF_acosh, BIF_asin, BIF_asinh, BIF_atan, BIF_atanh, BIF_cbrt, BIF_cos, BIF_cosh, BIF_erf, BIF_erfc,
		BIF_exp, BIF_expm1, BIF_invqnorm, BIF_log, BIF_log10, BIF_log1p, BIF_qnorm, BIF_sin, BIF_sinh, BIF_sqrt, BIF_tan, BIF_tanh,
		BIF_abs, BIF_ceil, BIF_floor, BIF_round, BIF_sgn, BIF_plus_unary, BIF_minus_unary, BIF_bitwise_not, BIF_bitcount}
	names := []string{"acos", "acosh", "asin", "asinh", "atan", "atanh", "cbrt", "cos", "cosh", "erf", "erfc",
		"exp", "expm1", "invqnorm", "log", "log10", "log1p", "qnorm", "sin", "sinh", "sqrt", "tan", "tanh",
		"abs", "ceil", "floor", "round", "sgn", "+u", "-u", "~", "bitcount"}
	fi := verifChoice("f", len(fs))
	k := verifChoice("k", kDIM)
	var a *mlrval.Mlrval
	switch k {
	case kINT:
		a = mlrval.FromInt(7) // payloads are irrelevant to the null-data rules; crash-freedom for all payloads is C18
	case kFLOAT:
		a = mlrval.FromFloat(0.5)
	default:
		a = c08Operand(k, "a")
	}
	out := fs[fi](a)
	verifAssert(out != nil, "C08/"+names[fi]+"/returns-a-value")
	if k == kABSENT {
		verifAssert(out.IsAbsent(), "C08/"+names[fi]+"/of-absent-is-absent")
	}
	if k == kERROR {
		verifAssert(out.IsError(), "C08/"+names[fi]+"/of-error-is-error")
	}
	verifReach("C08/unary/end")
}

// variadic min/max: absent and empty lose against numbers, from an unset accumulator as well
func VerifC08_minmax_variadic() {
	x := verifInt64("x")
	n := mlrval.FromInt(x)
	mn := BIF_min_variadic([]*mlrval.Mlrval{mlrval.ABSENT, n})
	verifAssert(c08SameNumber(mn, n), "C08/min-variadic/absent-loses")
	mx := BIF_max_variadic([]*mlrval.Mlrval{mlrval.ABSENT, n})
	verifAssert(c08SameNumber(mx, n), "C08/max-variadic/absent-loses")
	mn2 := BIF_min_variadic([]*mlrval.Mlrval{n, mlrval.ABSENT})
	verifAssert(c08SameNumber(mn2, n), "C08/min-variadic/absent-loses-right")
	mx2 := BIF_max_variadic([]*mlrval.Mlrval{n, mlrval.ABSENT})
	verifAssert(c08SameNumber(mx2, n), "C08/max-variadic/absent-loses-right")
	aa := BIF_min_variadic([]*mlrval.Mlrval{mlrval.ABSENT, mlrval.ABSENT})
	verifAssert(aa.IsAbsent(), "C08/min-variadic/absent-absent")
	verifReach("C08/minmax-variadic/end")
}

// R7: the is_* predicates classify every value consistently.
func VerifC08_is_predicates() {
	k := verifChoice("k", kDIM)
	a := c08Operand(k, "a")
	t := func(m *mlrval.Mlrval) bool { return m.IsTrue() }
	isAbsent, isPresent := t(BIF_is_absent(a)), t(BIF_is_present(a))
	verifAssert(isAbsent != isPresent, "C08/is/absent-xor-present")
	verifAssert(isAbsent == (k == kABSENT), "C08/is/absent-iff-absent")
	isEmpty, isNotEmpty := t(BIF_is_empty(a)), t(BIF_is_notempty(a))
	verifAssert(isEmpty == (k == kVOID), "C08/is/empty-iff-empty")
	verifAssert(!(isEmpty && isNotEmpty), "C08/is/empty-and-notempty-exclusive")
	if k != kABSENT {
		verifAssert(isEmpty != isNotEmpty, "C08/is/empty-xor-notempty-when-present")
	} else {
		// documented: "true if the field is PRESENT in input with non-empty value"
		verifAssert(!isNotEmpty && !isEmpty, "C08/is/absent-is-neither-empty-nor-not-empty")
	}
	verifAssert(isNotEmpty == (isPresent && !isEmpty), "C08/is/not-empty-is-present-and-not-empty")
	isNull, isNotNull := t(BIF_is_null(a)), t(BIF_is_notnull(a))
	verifAssert(isNull != isNotNull, "C08/is/null-xor-notnull")
	verifAssert(isNull == (k == kVOID || k == kABSENT || k == kNULL), "C08/is/null-is-empty-or-absent-or-jsonnull")
	isInt, isFloat, isNum := t(BIF_is_int(a)), t(BIF_is_float(a)), t(BIF_is_numeric(a))
	verifAssert(isNum == (isInt || isFloat), "C08/is/numeric-is-int-or-float")
	verifAssert(isInt == (k == kINT) && isFloat == (k == kFLOAT), "C08/is/int-float-by-kind")
	verifAssert(t(BIF_is_map(a)) != t(BIF_is_notmap(a)), "C08/is/map-xor-notmap")
	verifAssert(t(BIF_is_array(a)) != t(BIF_is_notarray(a)), "C08/is/array-xor-notarray")
	verifAssert(t(BIF_is_map(a)) == (k == kMAP) && t(BIF_is_array(a)) == (k == kARRAY), "C08/is/collections-by-kind")
	verifAssert(t(BIF_is_error(a)) == (k == kERROR), "C08/is/error-by-kind")
	verifAssert(t(BIF_is_bool(a)) == (k == kBOOL) && t(BIF_is_boolean(a)) == (k == kBOOL), "C08/is/bool-by-kind")
	verifAssert(t(BIF_is_string(a)) == (k == kSTRING || k == kVOID), "C08/is/string-includes-empty")
	if k == kMAP {
		verifAssert(t(BIF_is_emptymap(a)) != t(BIF_is_nonemptymap(a)), "C08/is/emptymap-xor-nonemptymap")
	}
	verifReach("C08/is/end")
}
