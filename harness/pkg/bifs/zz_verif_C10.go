//go:build verif

package bifs

// C10 — aggregating verbs equal first-principles recomputation (order-statistic index kernels
// and the DSL statistics functions on bounded collections).

import (
	"math"

	"github.com/johnkerl/miller/v6/pkg/mlrval"
)

func c10Array(n int) []*mlrval.Mlrval {
	a := make([]*mlrval.Mlrval, n)
	for i := 0; i < n; i++ {
		a[i] = mlrval.FromInt(int64(10 * (i + 1)))
	}
	return a
}

// array lengths explored: quick {1, 2, 5}, thorough 1..9 (each length costs ~1 minute of FP solving)
func c10N() int {
	if verifTier() > 0 {
		return 1 + verifChoice("n", 9)
	}
	return []int{1, 2, 5}[verifChoice("n", 3)]
}

// non-interpolated percentile: for every p in [0,100] the element at index
// clamp(floor(p*n/100), 0, n-1); for EVERY float p (NaN, infinities, negative, beyond 100) no crash
// and an element of the array.
//verif:opts cap=30000
func VerifC10_percentile_noninterpolated() {
	n := c10N()
	a := c10Array(n)
	p := verifFloat64("p")
	out := GetPercentileNonInterpolated(a, n, p)
	verifAssert(out != nil && out.IsInt(), "C10/pct/returns-an-element")
	if out == nil || !out.IsInt() {
		return
	}
	v := out.AcquireIntValue()
	verifAssert(v >= 10 && v <= int64(10*n) && v%10 == 0, "C10/pct/element-of-the-array")
	if p >= 0 && p <= 100 {
		idx := math.Floor(p * float64(n) / 100.0)
		if idx > float64(n-1) {
			idx = float64(n - 1)
		}
		verifAssert(float64(v) == 10*(idx+1), "C10/pct/index-formula")
	}
	verifReach("C10/pct/end")
}

// monotone in p
//verif:opts cap=60000 tier=thorough
func VerifC10_percentile_monotone() {
	n := c10N()
	a := c10Array(n)
	p, q := verifFloat64("p"), verifFloat64("q")
	verifAssume(p >= 0 && p <= q && q <= 100)
	x := GetPercentileNonInterpolated(a, n, p)
	y := GetPercentileNonInterpolated(a, n, q)
	verifAssert(x.AcquireIntValue() <= y.AcquireIntValue(), "C10/pct/monotone-in-p")
	verifReach("C10/pct-mono/end")
}

// interpolated percentile: for p in [0,100] the documented interpolation a[i] + frac*(a[i+1]-a[i])
// with findex = p/100*(n-1); for EVERY float p no crash.
//verif:opts cap=30000
func VerifC10_percentile_interpolated() {
	n := c10N()
	a := c10Array(n)
	p := verifFloat64("p")
	out := GetPercentileLinearlyInterpolated(a, n, p)
	verifAssert(out != nil && (out.IsInt() || out.IsFloat()), "C10/ipct/returns-a-number")
	if out == nil {
		return
	}
	if p >= 0 && p <= 100 {
		findex := (p / 100.0) * float64(n-1)
		var got float64
		if out.IsInt() {
			got = float64(out.AcquireIntValue())
		} else {
			got = out.AcquireFloatValue()
		}
		if findex >= float64(n-1) {
			verifAssert(got == float64(10*n), "C10/ipct/top-element")
		} else {
			// the lower neighbour's position, made concrete per path (the array has n <= 9 cells)
			li := verifConcretize(int64(math.Floor(findex)), 16)
			lo := float64(10 * (li + 1))
			frac := findex - float64(li)
			// (exact agreement with the documented formula lo + frac*10 is an FP query that no back end
			// discharged reliably within the cap, so it is not registered in either tier)
			_ = frac
			verifAssert(got >= lo && got <= lo+10, "C10/ipct/between-neighbours")
		}
	}
	verifReach("C10/ipct/end")
}

// DSL statistics functions on a 3-element array of symbolic ints: count, sum (exact int when it
// fits), distinct_count, null_count, mode/antimode (first-appearance tie-breaking), sort_collection,
// minlen/maxlen.
//verif:opts cap=30000
func VerifC10_dsl_stats_small_arrays() {
	// values in [-2, 3]: the functions key their tables by the TEXT of each value, so the ints are
	// completely concretised when formatted (6^3 value triples, decided per path)
	x, y, z := verifInt64("x"), verifInt64("y"), verifInt64("z")
	verifAssume(x >= -2 && x <= 3 && y >= -2 && y <= 3 && z >= -2 && z <= 3)
	arr := mlrval.FromArray([]*mlrval.Mlrval{mlrval.FromInt(x), mlrval.FromInt(y), mlrval.FromInt(z)})
	switch verifChoice("f", 6) {
	case 0:
		c := BIF_count(arr)
		verifAssert(c.IsInt() && c.AcquireIntValue() == 3, "C10/count")
	case 1:
		s := BIF_sum(arr)
		verifAssert(s.IsInt() && s.AcquireIntValue() == x+y+z, "C10/sum-of-ints-is-exact-int")
	case 2:
		d := BIF_distinct_count(arr)
		want := int64(1)
		if y != x {
			want++
		}
		if z != x && z != y {
			want++
		}
		verifAssert(d.IsInt() && d.AcquireIntValue() == want, "C10/distinct-count")
	case 3:
		m := BIF_mode(arr)
		// most frequent; ties -> first appearance
		want := x
		if y == z && y != x {
			want = y
		}
		verifAssert(m.IsInt() && m.AcquireIntValue() == want, "C10/mode-first-appearance-on-ties")
	case 4:
		m := BIF_antimode(arr)
		// least frequent; ties -> first appearance
		want := x
		if x == y && z != x {
			want = z
		} else if x == z && y != x {
			want = y
		}
		verifAssert(m.IsInt() && m.AcquireIntValue() == want, "C10/antimode-first-appearance-on-ties")
	case 5:
		s := BIF_sort_collection(arr)
		verifAssert(s.IsArray(), "C10/sort-collection/array")
		if s.IsArray() {
			o := s.AcquireArrayValue()
			verifAssert(len(o) == 3, "C10/sort-collection/length")
			if len(o) == 3 {
				a, b, c := o[0].AcquireIntValue(), o[1].AcquireIntValue(), o[2].AcquireIntValue()
				verifAssert(a <= b && b <= c, "C10/sort-collection/ordered")
				verifAssert(a+b+c == x+y+z && (a == x || a == y || a == z) && (c == x || c == y || c == z), "C10/sort-collection/permutation")
			}
		}
	}
	verifReach("C10/dsl-stats/end")
}

// a collection entry that is empty is counted by null_count and skipped by nothing else
func VerifC10_null_count() {
	x := verifInt64("x")
	arr := mlrval.FromArray([]*mlrval.Mlrval{mlrval.FromInt(x), mlrval.VOID, mlrval.FromString("abc"), mlrval.NULL})
	c := BIF_null_count(arr)
	verifAssert(c.IsInt() && c.AcquireIntValue() == 2, "C10/null-count-counts-empty-and-json-null")
	verifAssert(BIF_count(arr).AcquireIntValue() == 4, "C10/count-counts-all")
	verifReach("C10/null-count/end")
}

// DSL percentile family on collections of n = 0..3 symbolic ints (the empty collection included:
// a group all of whose values were filtered out): median(c) == percentile(c, 50) ==
// percentiles(c, [50])'s entry; percentiles answers with ONE ENTRY PER REQUESTED PERCENTILE
// (array form with "oa", map form otherwise) for every n; for n = 0 every entry is empty (as the
// stats1 accumulators give for an empty group) and nothing is an error; for n >= 1 every entry is
// the non-interpolated order statistic sorted[min(int(p/100*n), n-1)] of the definition.
//verif:opts cap=30000
func VerifC10_dsl_percentile_family() {
	n := verifChoice("n", 4)
	var xs []int64
	var elems []*mlrval.Mlrval
	for i := 0; i < n; i++ {
		x := verifInt64("x")
		verifAssume(x >= -1000 && x <= 1000)
		xs = append(xs, x)
		elems = append(elems, mlrval.FromInt(x))
	}
	// sorted copy (definition)
	sorted := append([]int64{}, xs...)
	for i := 0; i < len(sorted); i++ {
		for j := i + 1; j < len(sorted); j++ {
			if sorted[j] < sorted[i] {
				sorted[i], sorted[j] = sorted[j], sorted[i]
			}
		}
	}
	asMap := verifChoice("collection_is_map", 2) == 1
	var coll *mlrval.Mlrval
	if asMap {
		m := mlrval.NewMlrmap()
		for i, e := range elems {
			m.PutReference(string(rune('a'+i)), e)
		}
		coll = mlrval.FromMap(m)
	} else {
		coll = mlrval.FromArray(elems)
	}
	pvals := []float64{0, 25, 50, 75, 100}
	want := func(p float64) (int64, bool) {
		if n == 0 {
			return 0, false
		}
		idx := int(p / 100 * float64(n))
		if idx > n-1 {
			idx = n - 1
		}
		return sorted[idx], true
	}
	same := func(out *mlrval.Mlrval, p float64, label string) {
		verifAssert(out != nil && !out.IsError() && !out.IsAbsent(), label+"/not-an-error")
		if out == nil {
			return
		}
		w, has := want(p)
		if !has {
			verifAssert(out.IsVoid(), label+"/empty-collection-gives-empty")
		} else {
			verifAssert(out.IsInt() && out.AcquireIntValue() == w, label+"/order-statistic-of-the-definition")
		}
	}
	same(BIF_median(coll), 50, "C10/dsl-pct/median")
	pi := verifChoice("p", len(pvals))
	same(BIF_percentile(coll, mlrval.FromFloat(pvals[pi])), pvals[pi], "C10/dsl-pct/percentile")
	// percentiles with two requested values, array-shaped output
	qi := verifChoice("q", len(pvals))
	ps := mlrval.FromArray([]*mlrval.Mlrval{mlrval.FromFloat(pvals[pi]), mlrval.FromFloat(pvals[qi])})
	opts := mlrval.NewMlrmap()
	opts.PutReference("oa", mlrval.TRUE)
	outA := BIF_percentiles_with_options(coll, ps, mlrval.FromMap(opts))
	verifAssert(outA.IsArray(), "C10/dsl-pct/percentiles-oa-answers-with-an-array-for-every-n")
	if outA.IsArray() {
		arr := outA.AcquireArrayValue()
		verifAssert(len(arr) == 2, "C10/dsl-pct/percentiles-one-entry-per-requested-percentile")
		if len(arr) == 2 {
			same(arr[0], pvals[pi], "C10/dsl-pct/percentiles[0]")
			same(arr[1], pvals[qi], "C10/dsl-pct/percentiles[1]")
		}
	}
	// map-shaped output: one entry per distinct requested percentile
	outM := BIF_percentiles(coll, ps)
	verifAssert(outM.IsMap(), "C10/dsl-pct/percentiles-answers-with-a-map-for-every-n")
	if outM.IsMap() {
		m := outM.AcquireMapValue()
		wantN := int64(2)
		if pi == qi {
			wantN = 1
		}
		verifAssert(m.FieldCount == wantN, "C10/dsl-pct/percentiles-map-one-entry-per-requested-percentile")
		if m.Head != nil {
			same(m.Head.Value, pvals[pi], "C10/dsl-pct/percentiles-map-first")
		}
	}
	verifReach("C10/dsl-pct/end")
}
