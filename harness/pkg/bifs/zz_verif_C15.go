//go:build verif

package bifs

// C15 — the string functions count UTF-8 characters, not bytes, with 1-up inclusive bounds.
// Reference decoder: a character is a maximal valid UTF-8 sequence; every invalid byte is one
// character (as Go does).

import (
	"github.com/johnkerl/miller/v6/pkg/mlrval"
)

// size in bytes of the character starting at s[i]
func c15CharSize(s string, i int) int {
	c := s[i]
	need := 0
	lo, hi := byte(0x80), byte(0xBF)
	switch {
	case c < 0x80:
		return 1
	case c >= 0xC2 && c <= 0xDF:
		need = 1
	case c == 0xE0:
		need, lo = 2, 0xA0
	case c >= 0xE1 && c <= 0xEC, c == 0xEE, c == 0xEF:
		need = 2
	case c == 0xED:
		need, hi = 2, 0x9F
	case c == 0xF0:
		need, lo = 3, 0x90
	case c >= 0xF1 && c <= 0xF3:
		need = 3
	case c == 0xF4:
		need, hi = 3, 0x8F
	default:
		return 1
	}
	if i+need >= len(s) {
		return 1
	}
	if s[i+1] < lo || s[i+1] > hi {
		return 1
	}
	for k := 2; k <= need; k++ {
		if s[i+k] < 0x80 || s[i+k] > 0xBF {
			return 1
		}
	}
	return need + 1
}

// byte offsets of the character starts, plus len(s) at the end
func c15Chars(s string) []int {
	var starts []int
	for i := 0; i < len(s); {
		starts = append(starts, i)
		i += c15CharSize(s, i)
	}
	return append(starts, len(s))
}

//verif:opts unwind=300 maxpaths=400000
func VerifC15_strlen_truncate() {
	n := 2
	if verifTier() > 0 {
		n = 3
	}
	s := verifString("s", verifChoice("len", n+1))
	st := c15Chars(s)
	nchars := len(st) - 1
	in := mlrval.FromString(s)
	l := BIF_strlen(in)
	verifAssert(l.IsInt() && l.AcquireIntValue() == int64(nchars), "C15/strlen/counts-characters")
	k := verifInt64("k")
	out := BIF_truncate(in, mlrval.FromInt(k))
	if k < 0 {
		verifAssert(out.IsError(), "C15/truncate/negative-length-is-an-error")
	} else if k >= int64(nchars) {
		verifAssert(out.String() == s, "C15/truncate/short-input-unchanged")
	} else {
		kc := int(verifConcretize(k, 8))
		// the first k characters; invalid bytes are re-encoded as U+FFFD by the rune round trip, so
		// compare byte-for-byte only when the kept prefix is valid UTF-8
		valid := true
		for c := 0; c < kc; c++ {
			if st[c+1]-st[c] == 1 && s[st[c]] >= 0x80 {
				valid = false
			}
		}
		if valid {
			verifAssert(out.String() == s[:st[kc]], "C15/truncate/first-k-characters")
		}
		ol := BIF_strlen(out)
		verifAssert(ol.IsInt() && ol.AcquireIntValue() == int64(kc), "C15/truncate/result-has-k-characters")
	}
	verifReach("C15/strlen/end")
}

// substr1(s, m, n): characters m..n inclusive, 1-up; negative indices alias from the end;
// out-of-range gives an error/empty result, never a crash
//verif:opts unwind=300 maxpaths=400000
func VerifC15_substr_1_up() {
	n := 3
	s := verifString("s", verifChoice("len", n+1))
	// valid UTF-8 only, so that byte-for-byte comparison is meaningful
	st := c15Chars(s)
	nchars := len(st) - 1
	for c := 0; c < nchars; c++ {
		verifAssume(!(st[c+1]-st[c] == 1 && s[st[c]] >= 0x80))
	}
	m, k := verifInt64("m"), verifInt64("n")
	out := BIF_substr_1_up(mlrval.FromString(s), mlrval.FromInt(m), mlrval.FromInt(k))
	verifAssert(out != nil, "C15/substr/returns")
	if m >= 1 && k >= m && k <= int64(nchars) {
		mc, kc := int(verifConcretize(m, 8)), int(verifConcretize(k, 8))
		verifAssert(out.String() == s[st[mc-1]:st[kc]], "C15/substr1/characters-m-to-n-inclusive")
	}
	verifReach("C15/substr/end")
}

// leftpad/rightpad count CHARACTERS of both the input and the pad string: the result is the input
// with k whole copies of the pad on the left/right, k = max(0, (n - chars(s)) / chars(pad)), so
// its character count never exceeds max(n, chars(s)) and falls short of n by less than chars(pad).
// s from a palette of four; pad: 1..2 SYMBOLIC bytes (so one 2-byte character, two 1-byte characters,
// invalid bytes...); n in 0..5.
//verif:opts unwind=300 maxpaths=400000
func VerifC15_pad_counts_characters() {
	s := []string{"", "a", "\xc3\xa9", "\xff"}[verifChoice("s", 4)] // empty, ASCII, one 2-byte character, one invalid byte
	pad := verifString("pad", 1+verifChoice("padlen", 2))
	// target length enumerated (all lengths become concrete per path): quick {0,2,5}, thorough 0..5
	n := int64([]int{0, 2, 5}[verifChoice("n", 3)])
	if verifTier() > 0 {
		n = int64(verifChoice("n_thorough", 6))
	}
	sc := int64(len(c15Chars(s)) - 1)
	pc := int64(len(c15Chars(pad)) - 1)
	k := int64(0)
	if n > sc {
		k = (n - sc) / pc
	}
	kc := int(verifConcretize(k, 16))
	want := ""
	for i := 0; i < kc; i++ {
		want += pad
	}
	left := verifChoice("left", 2) == 1
	var out *mlrval.Mlrval
	if left {
		out = BIF_leftpad(mlrval.FromString(s), mlrval.FromInt(n), mlrval.FromString(pad))
		verifAssert(out.String() == want+s, "C15/pad/left-k-whole-copies-counted-in-characters")
	} else {
		out = BIF_rightpad(mlrval.FromString(s), mlrval.FromInt(n), mlrval.FromString(pad))
		verifAssert(out.String() == s+want, "C15/pad/right-k-whole-copies-counted-in-characters")
	}
	verifReach("C15/pad/end")
}

// capitalize / toupper / tolower work on CHARACTERS: for strings of one or two characters,
// capitalize changes at most the first character (the rest is kept byte for byte and the character
// count is unchanged), ASCII letters are mapped exactly, and toupper/tolower keep the character
// count and map ASCII exactly.
//verif:opts unwind=300 maxpaths=400000
func VerifC15_case_functions_count_characters() {
	// first character: a symbolic ASCII byte, or one of three concrete multi-byte characters (case
	// mapping of a SYMBOLIC non-ASCII rune walks Unicode tables the engine cannot index symbolically);
	// then zero or one symbolic ASCII byte
	head := []string{"", "\xc3\xa9", "\xd0\xb6", "\xe2\x82\xac"}[verifChoice("first_character", 4)]
	if head == "" {
		head = verifString("first", 1)
		verifAssume(head[0] < 0x80)
	}
	tail := verifString("tail", verifChoice("tail_len", 2))
	if len(tail) == 1 {
		verifAssume(tail[0] < 0x80)
	}
	s := head + tail
	st := c15Chars(s)
	nchars := int64(len(st) - 1)
	first := st[1] // byte length of the first character
	in := mlrval.FromString(s)
	valid := true
	for c := 0; c+1 < len(st); c++ {
		if st[c+1]-st[c] == 1 && s[st[c]] >= 0x80 {
			valid = false
		}
	}
	switch verifChoice("function", 3) {
	case 0:
		out := BIF_capitalize(in).String()
		if s[0] >= 'a' && s[0] <= 'z' {
			verifAssert(len(out) == len(s) && out[0] == s[0]-32 && out[1:] == s[1:], "C15/capitalize/ascii-first-letter-uppercased-rest-kept")
		} else if s[0] < 0x80 {
			verifAssert(out == s, "C15/capitalize/other-ascii-first-character-unchanged")
		} else if valid {
			// a multi-byte first character: whatever its upper case is, the rest is kept and the
			// number of characters does not change
			rest := s[first:]
			verifAssert(len(out) >= len(rest) && out[len(out)-len(rest):] == rest, "C15/capitalize/rest-kept-byte-for-byte")
			l := BIF_strlen(mlrval.FromString(out))
			verifAssert(l.IsInt() && l.AcquireIntValue() == nchars, "C15/capitalize/character-count-unchanged")
		}
	case 1, 2:
		var out string
		if verifChoice("upper", 2) == 1 {
			out = BIF_toupper(in).String()
			for i := 0; i < len(s); i++ {
				if s[i] < 0x80 && valid && len(out) == len(s) {
					want := s[i]
					if want >= 'a' && want <= 'z' {
						want -= 32
					}
					verifAssert(out[i] == want, "C15/toupper/ascii-mapped-exactly")
				}
			}
		} else {
			out = BIF_tolower(in).String()
			for i := 0; i < len(s); i++ {
				if s[i] < 0x80 && valid && len(out) == len(s) {
					want := s[i]
					if want >= 'A' && want <= 'Z' {
						want += 32
					}
					verifAssert(out[i] == want, "C15/tolower/ascii-mapped-exactly")
				}
			}
		}
		if valid {
			l := BIF_strlen(mlrval.FromString(out))
			verifAssert(l.IsInt() && l.AcquireIntValue() == nchars, "C15/case/character-count-unchanged")
		}
	}
	verifReach("C15/case/end")
}

// the printf-format translation: C length modifiers (%lld, %llx, %ld, %lx, %lf, %le, %lg) mean what
// the plain Go verbs mean, with flags, width and precision kept; x is a symbolic int in [-20, 20]
func VerifC15_printf_translation() {
	type pair struct{ user, plain string }
	pairs := []pair{
		{"%lld", "%d"}, {"%08lld", "%08d"}, {"%llx", "%x"}, {"%08llx", "%08x"}, {"%ld", "%d"}, {"%5ld", "%5d"},
		{"%lx", "%x"}, {"%-4lx", "%-4x"}, {"%lf", "%f"}, {"%.3lf", "%.3f"}, {"%08.3lf", "%08.3f"}, {"%le", "%e"}, {"%.2le", "%.2e"}, {"%lg", "%g"},
	}
	p := pairs[verifChoice("format", len(pairs))]
	x := verifInt64("x")
	verifAssume(x >= -20 && x <= 20)
	x = verifConcretize(x, 64) // the float verbs format float64(x): every value of the range, enumerated by the solver
	a := BIF_fmtnum(mlrval.FromInt(x), mlrval.FromString(p.user))
	b := BIF_fmtnum(mlrval.FromInt(x), mlrval.FromString(p.plain))
	verifAssert(!a.IsError() && !b.IsError(), "C15/printf/formats-accepted")
	verifAssert(a.String() == b.String(), "C15/printf/length-modifiers-mean-the-plain-verb")
	c := BIF_fmtifnum(mlrval.FromString("abc"), mlrval.FromString(p.user))
	verifAssert(c.String() == "abc", "C15/printf/fmtifnum-leaves-text-alone")
	verifReach("C15/printf/end")
}

// index / contains count CHARACTERS (1-up) and agree with each other; ssub / gssub replace the first /
// every non-overlapping occurrence of a plain (not regex) needle; the strip family removes exactly
// the leading / trailing / repeated blanks.  Haystack: up to three characters, each a symbolic ASCII
// byte from {a, b, ., space} or a concrete 2- or 3-byte character; needle: one such character or two.
//verif:opts maxpaths=200000 unwind=300
func VerifC15_search_replace_and_strip() {
	pick := func(tag string) string {
		k := verifChoice(tag, 6)
		return []string{"a", "b", ".", " ", "\xc3\xa9", "\xe2\x82\xac"}[k]
	}
	n := 1 + verifChoice("chars", 3)
	var chars []string
	s := ""
	for i := 0; i < n; i++ {
		c := pick("c")
		chars = append(chars, c)
		s += c
	}
	needleChars := []string{pick("n")}
	if verifChoice("needle_two", 2) == 1 {
		needleChars = append(needleChars, pick("n"))
	}
	needle := ""
	for _, c := range needleChars {
		needle += c
	}
	// first occurrence, in characters
	pos := -1
	for i := 0; i+len(needleChars) <= n && pos < 0; i++ {
		ok := true
		for k := range needleChars {
			if chars[i+k] != needleChars[k] {
				ok = false
			}
		}
		if ok {
			pos = i
		}
	}
	in, nd := mlrval.FromString(s), mlrval.FromString(needle)
	switch verifChoice("function", 4) {
	case 0:
		ix := BIF_index(in, nd)
		want := int64(-1)
		if pos >= 0 {
			want = int64(pos + 1)
		}
		verifAssert(ix.IsInt() && ix.AcquireIntValue() == want, "C15/index/one-up-character-position-of-the-first-occurrence")
		ct := BIF_contains(in, nd)
		verifAssert(ct.IsTrue() == (pos >= 0), "C15/contains/agrees-with-index")
	case 1:
		// ssub: the first occurrence replaced, everything else byte for byte
		want := s
		if pos >= 0 {
			want = ""
			for i := 0; i < n; {
				if i == pos {
					want += "XY"
					i += len(needleChars)
				} else {
					want += chars[i]
					i++
				}
			}
		}
		verifAssert(BIF_ssub(in, nd, mlrval.FromString("XY")).String() == want, "C15/ssub/first-plain-occurrence-replaced")
	case 2:
		// gssub: every non-overlapping occurrence, left to right
		want := ""
		for i := 0; i < n; {
			match := i+len(needleChars) <= n
			for k := 0; match && k < len(needleChars); k++ {
				if chars[i+k] != needleChars[k] {
					match = false
				}
			}
			if match {
				want += "XY"
				i += len(needleChars)
			} else {
				want += chars[i]
				i++
			}
		}
		verifAssert(BIF_gssub(in, nd, mlrval.FromString("XY")).String() == want, "C15/gssub/every-plain-occurrence-replaced")
	case 3:
		lead, trail := 0, 0
		for lead < n && chars[lead] == " " {
			lead++
		}
		for trail < n-lead && chars[n-1-trail] == " " {
			trail++
		}
		join := func(cs []string) string {
			o := ""
			for _, c := range cs {
				o += c
			}
			return o
		}
		verifAssert(BIF_lstrip(in).String() == join(chars[lead:]), "C15/lstrip/leading-blanks-only")
		trailAlone := 0
		for trailAlone < n && chars[n-1-trailAlone] == " " {
			trailAlone++
		}
		verifAssert(BIF_rstrip(in).String() == join(chars[:n-trailAlone]), "C15/rstrip/trailing-blanks-only")
		verifAssert(BIF_strip(in).String() == join(chars[lead:n-trail]), "C15/strip/both-ends")
		// collapse: runs of blanks become one blank; clean = collapse then strip
		var col []string
		for i, c := range chars {
			if c == " " && i > 0 && chars[i-1] == " " {
				continue
			}
			col = append(col, c)
		}
		verifAssert(BIF_collapse_whitespace(in).String() == join(col), "C15/collapse-whitespace/runs-become-one-blank")
		cl, ct := 0, 0
		for cl < len(col) && col[cl] == " " {
			cl++
		}
		for ct < len(col)-cl && col[len(col)-1-ct] == " " {
			ct++
		}
		verifAssert(BIF_clean_whitespace(in).String() == join(col[cl:len(col)-ct]), "C15/clean-whitespace/collapse-then-strip")
	}
	verifReach("C15/search/end")
}
