//go:build verif

package bifs

import (
	"math"
	"math/bits"

	"github.com/johnkerl/miller/v6/pkg/mlrval"
)

// exact: does the 128-bit product a*b fit in int64?  (double-word product of the magnitudes)
func c07MulFits(a, b int64) bool {
	neg := (a < 0) != (b < 0)
	ua, ub := uint64(a), uint64(b)
	if a < 0 {
		ua = -ua
	}
	if b < 0 {
		ub = -ub
	}
	hi, lo := bits.Mul64(ua, ub)
	if hi != 0 {
		return false
	}
	if neg {
		return lo <= 1<<63
	}
	return lo < 1<<63
}

// '*' for all int64 operands.  The oracle forms the exact double-word product with
// math/bits.Mul64 (trusted library); a 64x64 multiplier cannot be compared with an independent
// 128-bit SMT multiplication within any practical time (probed: unknown at 120 s even with one
// operand below 2^10), so the independent 128-bit specification is checked only on the
// small-operand sub-domain below (VerifC07_times_ii_small).
//verif:opts cap=60000
func VerifC07_times_ii() {
	a, b := verifInt64("a"), verifInt64("b")
	out := BIF_times(mlrval.FromInt(a), mlrval.FromInt(b))
	if c07MulFits(a, b) {
		verifAssert(out.IsInt(), "C07/times/int-when-product-fits")
		if out.IsInt() {
			verifAssert(out.AcquireIntValue() == a*b, "C07/times/exact")
		}
	} else {
		verifAssert(out.IsFloat(), "C07/times/float-on-overflow")
	}
	verifReach("C07/times/end")
}

// '*' against the independent 128-bit specification, both operands below 2^6 / 2^8 in magnitude
// times a power-of-two scale (so that products straddle 2^63): a = x << s, |x|,|b| small.
//verif:opts cap=60000
func VerifC07_times_ii_small() {
	x, b := verifInt64("x"), verifInt64("b")
	lim := int64(1) << 4
	if verifTier() > 0 {
		lim = 1 << 6
	}
	verifAssume(x > -lim && x < lim && b > -lim && b < lim)
	sh := []uint{0, 55, 57, 58, 59, 60, 62}[verifChoice("shift", 7)]
	a := x << sh
	out := BIF_times(mlrval.FromInt(a), mlrval.FromInt(b))
	if verifMulFits(a, b) {
		verifAssert(out.IsInt(), "C07/times-small/int-when-product-fits")
		if out.IsInt() {
			verifAssert(out.AcquireIntValue() == a*b, "C07/times-small/exact")
		}
	} else {
		verifAssert(out.IsFloat(), "C07/times-small/float-on-overflow")
	}
	verifReach("C07/times-small/end")
}

// bit operators: 64-bit two's complement.
func VerifC07_bitops() {
	a, b := verifInt64("a"), verifInt64("b")
	ia, ib := mlrval.FromInt(a), mlrval.FromInt(b)
	switch verifChoice("op", 8) {
	case 0:
		out := BIF_bitwise_and(ia, ib)
		verifAssert(out.IsInt() && out.AcquireIntValue() == a&b, "C07/bits/and")
	case 1:
		out := BIF_bitwise_or(ia, ib)
		verifAssert(out.IsInt() && out.AcquireIntValue() == a|b, "C07/bits/or")
	case 2:
		out := BIF_bitwise_xor(ia, ib)
		verifAssert(out.IsInt() && out.AcquireIntValue() == a^b, "C07/bits/xor")
	case 3:
		out := BIF_bitwise_not(ia)
		verifAssert(out.IsInt() && out.AcquireIntValue() == -a-1, "C07/bits/not")
	case 4:
		out := BIF_left_shift(ia, ib)
		verifAssert(out.IsInt(), "C07/bits/lsh-int")
		if b >= 0 && b < 64 && out.IsInt() {
			verifAssert(uint64(out.AcquireIntValue()) == uint64(a)<<uint(b), "C07/bits/lsh")
		}
	case 5:
		// '>>' is the signed (sign-propagating) shift
		out := BIF_signed_right_shift(ia, ib)
		verifAssert(out.IsInt(), "C07/bits/srsh-int")
		if b >= 0 && b < 64 && out.IsInt() {
			r := out.AcquireIntValue()
			verifAssert(r == a>>uint(b), "C07/bits/srsh")
			verifAssert((r < 0) == (a < 0), "C07/bits/srsh-keeps-sign")
		}
	case 6:
		// '>>>' is the unsigned (zero-filling) shift
		out := BIF_unsigned_right_shift(ia, ib)
		verifAssert(out.IsInt(), "C07/bits/ursh-int")
		if b >= 0 && b < 64 && out.IsInt() {
			r := out.AcquireIntValue()
			verifAssert(uint64(r) == uint64(a)>>uint(b), "C07/bits/ursh")
			if b > 0 {
				verifAssert(r >= 0, "C07/bits/ursh-zero-fills")
			}
		}
	case 7:
		out := BIF_bitcount(ia)
		verifAssert(out.IsInt(), "C07/bits/bitcount-int")
		if out.IsInt() {
			// independent popcount: sum of the 64 bits
			n := int64(0)
			u := uint64(a)
			for k := 0; k < 64; k++ {
				n += int64((u >> uint(k)) & 1)
			}
			verifAssert(out.AcquireIntValue() == n, "C07/bits/bitcount")
		}
	}
	verifReach("C07/bits/end")
}

// unary operators, min/max on ints, int-preserving math functions.
func VerifC07_unary_minmax() {
	a, b := verifInt64("a"), verifInt64("b")
	ia, ib := mlrval.FromInt(a), mlrval.FromInt(b)
	switch verifChoice("op", 9) {
	case 0:
		out := BIF_plus_unary(ia)
		verifAssert(out.IsInt() && out.AcquireIntValue() == a, "C07/unary/plus")
	case 1:
		out := BIF_minus_unary(ia)
		if a != math.MinInt64 {
			verifAssert(out.IsInt() && out.AcquireIntValue() == -a, "C07/unary/minus")
		} else {
			// 2^63 does not fit: a float, never the wrapped -2^63
			verifAssert(out.IsFloat(), "C07/unary/minus-overflow-to-float")
		}
	case 2:
		out := BIF_min_binary(ia, ib)
		m := a
		if b < a {
			m = b
		}
		verifAssert(out.IsInt() && out.AcquireIntValue() == m, "C07/min/int")
	case 3:
		out := BIF_max_binary(ia, ib)
		m := a
		if b > a {
			m = b
		}
		verifAssert(out.IsInt() && out.AcquireIntValue() == m, "C07/max/int")
	case 4:
		out := BIF_abs(ia)
		verifAssert(out.IsInt(), "C07/abs/int-preserved")
		if a > -(1<<53) && a < (1<<53) && out.IsInt() {
			m := a
			if a < 0 {
				m = -a
			}
			verifAssert(out.AcquireIntValue() == m, "C07/abs/value")
		}
	case 5:
		out := BIF_ceil(ia)
		verifAssert(out.IsInt(), "C07/ceil/int-preserved")
		if a > -(1<<53) && a < (1<<53) && out.IsInt() {
			verifAssert(out.AcquireIntValue() == a, "C07/ceil/value")
		}
	case 6:
		out := BIF_floor(ia)
		verifAssert(out.IsInt(), "C07/floor/int-preserved")
		if a > -(1<<53) && a < (1<<53) && out.IsInt() {
			verifAssert(out.AcquireIntValue() == a, "C07/floor/value")
		}
	case 7:
		out := BIF_round(ia)
		verifAssert(out.IsInt(), "C07/round/int-preserved")
		if a > -(1<<53) && a < (1<<53) && out.IsInt() {
			verifAssert(out.AcquireIntValue() == a, "C07/round/value")
		}
	case 8:
		out := BIF_sgn(ia)
		verifAssert(out.IsInt(), "C07/sgn/int-preserved")
		if out.IsInt() {
			s := int64(0)
			if a > 0 {
				s = 1
			} else if a < 0 {
				s = -1
			}
			verifAssert(out.AcquireIntValue() == s, "C07/sgn/value")
		}
	}
	verifReach("C07/unary/end")
}

// min/max variadic on ints (min(1,2,3) style): int-ness and value.
func VerifC07_minmax_variadic() {
	a, b, c := verifInt64("a"), verifInt64("b"), verifInt64("c")
	vals := []*mlrval.Mlrval{mlrval.FromInt(a), mlrval.FromInt(b), mlrval.FromInt(c)}
	lo, hi := a, a
	if b < lo {
		lo = b
	}
	if c < lo {
		lo = c
	}
	if b > hi {
		hi = b
	}
	if c > hi {
		hi = c
	}
	mn := BIF_min_variadic(vals)
	verifAssert(mn.IsInt() && mn.AcquireIntValue() == lo, "C07/min-variadic/int")
	mx := BIF_max_variadic(vals)
	verifAssert(mx.IsInt() && mx.AcquireIntValue() == hi, "C07/max-variadic/int")
	verifReach("C07/minmax-variadic/end")
}

// Mixed int/float: the IEEE operation on the converted operands (bit-for-bit, NaN ~ NaN).
func c07SameFloat(x, y float64) bool {
	return x == y || (x != x && y != y)
}

func VerifC07_mixed() {
	a := verifInt64("a")
	f := verifFloat64("f")
	ia, ff := mlrval.FromInt(a), mlrval.FromFloat(f)
	fa := float64(a)
	switch verifChoice("op", 8) {
	case 0:
		out := BIF_plus_binary(ia, ff)
		verifAssert(out.IsFloat() && c07SameFloat(out.AcquireFloatValue(), fa+f), "C07/mixed/plus-if")
	case 1:
		out := BIF_plus_binary(ff, ia)
		verifAssert(out.IsFloat() && c07SameFloat(out.AcquireFloatValue(), f+fa), "C07/mixed/plus-fi")
	case 2:
		out := BIF_minus_binary(ia, ff)
		verifAssert(out.IsFloat() && c07SameFloat(out.AcquireFloatValue(), fa-f), "C07/mixed/minus-if")
	case 3:
		out := BIF_minus_binary(ff, ia)
		verifAssert(out.IsFloat() && c07SameFloat(out.AcquireFloatValue(), f-fa), "C07/mixed/minus-fi")
	case 4:
		out := BIF_times(ia, ff)
		verifAssert(out.IsFloat() && c07SameFloat(out.AcquireFloatValue(), fa*f), "C07/mixed/times-if")
	case 5:
		out := BIF_times(ff, ia)
		verifAssert(out.IsFloat() && c07SameFloat(out.AcquireFloatValue(), f*fa), "C07/mixed/times-fi")
	case 6:
		out := BIF_divide(ia, ff)
		verifAssert(out.IsFloat() && c07SameFloat(out.AcquireFloatValue(), fa/f), "C07/mixed/divide-if")
	case 7:
		out := BIF_divide(ff, ia)
		verifAssert(out.IsFloat() && c07SameFloat(out.AcquireFloatValue(), f/fa), "C07/mixed/divide-fi")
	}
	verifReach("C07/mixed/end")
}

// float (op) float is the IEEE operation, and no float operand (NaN, Inf, -0) crashes.
func VerifC07_float_float() {
	f, g := verifFloat64("f"), verifFloat64("g")
	ff, gg := mlrval.FromFloat(f), mlrval.FromFloat(g)
	switch verifChoice("op", 6) {
	case 0:
		out := BIF_plus_binary(ff, gg)
		verifAssert(out.IsFloat() && c07SameFloat(out.AcquireFloatValue(), f+g), "C07/ff/plus")
	case 1:
		out := BIF_minus_binary(ff, gg)
		verifAssert(out.IsFloat() && c07SameFloat(out.AcquireFloatValue(), f-g), "C07/ff/minus")
	case 2:
		out := BIF_times(ff, gg)
		verifAssert(out.IsFloat() && c07SameFloat(out.AcquireFloatValue(), f*g), "C07/ff/times")
	case 3:
		out := BIF_divide(ff, gg)
		verifAssert(out.IsFloat() && c07SameFloat(out.AcquireFloatValue(), f/g), "C07/ff/divide")
	case 4:
		out := BIF_int_divide(ff, gg)
		verifAssert(out.IsFloat() && c07SameFloat(out.AcquireFloatValue(), math.Floor(f/g)), "C07/ff/int-divide")
	case 5:
		out := BIF_modulus(ff, gg)
		verifAssert(out.IsFloat() || out.IsError(), "C07/ff/modulus-number")
	}
	verifReach("C07/ff/end")
}

// madd/msub: exact modular arithmetic for m > 0, result in [0,m); m == 0 is a number or an
// error value, never a crash.  Reference: reduce first, add in uint64 (no overflow possible).
func c07RefModAdd(a, b, m int64) int64 {
	ra, rb := uint64(c07FloorMod(a, m)), uint64(c07FloorMod(b, m))
	s := ra + rb
	if s >= uint64(m) {
		s -= uint64(m)
	}
	return int64(s)
}

//verif:opts cap=60000
func VerifC07_madd() {
	a, b, m := verifInt64("a"), verifInt64("b"), verifInt64("m")
	out := BIF_mod_add(mlrval.FromInt(a), mlrval.FromInt(b), mlrval.FromInt(m))
	verifAssert(out.IsInt() || out.IsFloat() || out.IsError(), "C07/madd/number-or-error")
	if m > 0 {
		verifAssert(out.IsInt(), "C07/madd/int")
		if out.IsInt() {
			r := out.AcquireIntValue()
			verifAssert(r >= 0 && r < m, "C07/madd/range")
			verifAssert(r == c07RefModAdd(a, b, m), "C07/madd/exact")
		}
	}
	verifReach("C07/madd/end")
}

//verif:opts cap=60000
func VerifC07_msub() {
	a, b, m := verifInt64("a"), verifInt64("b"), verifInt64("m")
	out := BIF_mod_sub(mlrval.FromInt(a), mlrval.FromInt(b), mlrval.FromInt(m))
	verifAssert(out.IsInt() || out.IsFloat() || out.IsError(), "C07/msub/number-or-error")
	if m > 0 {
		verifAssert(out.IsInt(), "C07/msub/int")
		if out.IsInt() {
			r := out.AcquireIntValue()
			verifAssert(r >= 0 && r < m, "C07/msub/range")
			// a - b ≡ a + (m - (b mod m))
			nb := m - c07FloorMod(b, m)
			verifAssert(r == c07RefModAdd(a, nb, m), "C07/msub/exact")
		}
	}
	verifReach("C07/msub/end")
}

// mmul with the modulus bounded (stated bound: 0 < m < 2^8 quick / 2^12 thorough; a, b full width).
//verif:opts cap=120000
func VerifC07_mmul_bounded() {
	a, b, m := verifInt64("a"), verifInt64("b"), verifInt64("m")
	lim := int64(1) << 8
	if verifTier() > 0 {
		lim = 1 << 12
	}
	verifAssume(m > 0 && m < lim)
	out := BIF_mod_mul(mlrval.FromInt(a), mlrval.FromInt(b), mlrval.FromInt(m))
	verifAssert(out.IsInt(), "C07/mmul/int")
	if out.IsInt() {
		r := out.AcquireIntValue()
		verifAssert(r >= 0 && r < m, "C07/mmul/range")
		ra, rb := c07FloorMod(a, m), c07FloorMod(b, m)
		verifAssert(uint64(r) == verifMulMod(uint64(ra), uint64(rb), uint64(m)), "C07/mmul/exact")
	}
	verifReach("C07/mmul/end")
}

// zero modulus never crashes (mmul, mexp).
func VerifC07_mod_zero() {
	a, b := verifInt64("a"), verifInt64("b")
	switch verifChoice("op", 2) {
	case 0:
		out := BIF_mod_mul(mlrval.FromInt(a), mlrval.FromInt(b), mlrval.FromInt(0))
		verifAssert(out.IsInt() || out.IsFloat() || out.IsError(), "C07/mmul/zero-modulus-number-or-error")
	case 1:
		verifAssume(b >= 0 && b < 4)
		out := BIF_mod_exp(mlrval.FromInt(a), mlrval.FromInt(b), mlrval.FromInt(0))
		verifAssert(out.IsInt() || out.IsFloat() || out.IsError(), "C07/mexp/zero-modulus-number-or-error")
	}
	verifReach("C07/modzero/end")
}

// mexp with small exponent and bounded base/modulus: exact modular power in [0,m).
//verif:opts cap=120000 unwind=16
func VerifC07_mexp_bounded() {
	a, e, m := verifInt64("a"), verifInt64("e"), verifInt64("m")
	elim, lim := int64(3), int64(1)<<5
	if verifTier() > 0 {
		elim, lim = 4, 1<<6 // (e < 6, |a|, m < 2^8 was not discharged within the cap: not registered)
	}
	verifAssume(e >= 0 && e < elim)
	verifAssume(m > 0 && m < lim)
	verifAssume(a > -lim && a < lim)
	out := BIF_mod_exp(mlrval.FromInt(a), mlrval.FromInt(e), mlrval.FromInt(m))
	verifAssert(out.IsInt(), "C07/mexp/int")
	if out.IsInt() {
		r := out.AcquireIntValue()
		verifAssert(r >= 0 && r < m, "C07/mexp/range")
		// reference: e multiplications, reducing each time
		ra := c07FloorMod(a, m)
		p := int64(1) % m
		for k := int64(0); k < e; k++ {
			p = (p * ra) % m
		}
		verifAssert(r == p, "C07/mexp/exact")
	}
	verifReach("C07/mexp/end")
}

// negative exponents are refused with an error value.
func VerifC07_mexp_negative() {
	a, e, m := verifInt64("a"), verifInt64("e"), verifInt64("m")
	verifAssume(e < 0)
	out := BIF_mod_exp(mlrval.FromInt(a), mlrval.FromInt(e), mlrval.FromInt(m))
	verifAssert(out.IsError(), "C07/mexp/negative-exponent-error")
	verifReach("C07/mexp-neg/end")
}

// roundm(int, int): int-ness is preserved and no divisor (zero included) crashes.  The rounded
// VALUE goes through math.Round(x/m)*m in floating point, which no back end decides for two
// symbolic operands within the cap: outside the claim.
func VerifC07_roundm_ii() {
	x, m := verifInt64("x"), verifInt64("m")
	out := BIF_roundm(mlrval.FromInt(x), mlrval.FromInt(m))
	verifAssert(out.IsInt(), "C07/roundm/int-preserved")
	verifReach("C07/roundm/end")
}
