//go:build verif

package bifs

// C07 — arithmetic is exact on 64-bit ints, overflows to float, never crashes.
// Oracles are written from the property statement with 65-bit reasoning done by case analysis
// on int64 (no use of the code under test).

import (
	"math"

	"github.com/johnkerl/miller/v6/pkg/mlrval"
)

// sum a+b fits in int64?
func c07AddFits(a, b int64) bool {
	return !((b > 0 && a > math.MaxInt64-b) || (b < 0 && a < math.MinInt64-b))
}

// difference a-b fits in int64?
func c07SubFits(a, b int64) bool {
	return !((b < 0 && a > math.MaxInt64+b) || (b > 0 && a < math.MinInt64+b))
}

func VerifC07_plus_ii() {
	a, b := verifInt64("a"), verifInt64("b")
	out := BIF_plus_binary(mlrval.FromInt(a), mlrval.FromInt(b))
	if c07AddFits(a, b) {
		verifAssert(out.IsInt(), "C07/plus/int-when-sum-fits")
		if out.IsInt() {
			verifAssert(out.AcquireIntValue() == a+b, "C07/plus/exact")
		}
	} else {
		verifAssert(out.IsFloat(), "C07/plus/float-on-overflow")
		if out.IsFloat() {
			verifAssert(out.AcquireFloatValue() == float64(a)+float64(b), "C07/plus/float-value")
		}
	}
	verifReach("C07/plus/end")
}

func VerifC07_minus_ii() {
	a, b := verifInt64("a"), verifInt64("b")
	out := BIF_minus_binary(mlrval.FromInt(a), mlrval.FromInt(b))
	if c07SubFits(a, b) {
		verifAssert(out.IsInt(), "C07/minus/int-when-difference-fits")
		if out.IsInt() {
			verifAssert(out.AcquireIntValue() == a-b, "C07/minus/exact")
		}
	} else {
		verifAssert(out.IsFloat(), "C07/minus/float-on-overflow")
		if out.IsFloat() {
			verifAssert(out.AcquireFloatValue() == float64(a)-float64(b), "C07/minus/float-value")
		}
	}
	verifReach("C07/minus/end")
}

// Reference floor division and modulus in terms of Go's truncated / and % (trusted language
// semantics), structured by the sign of the remainder rather than by the operand signs.
func c07FloorDiv(a, b int64) int64 {
	q, r := a/b, a%b
	if r != 0 && ((r < 0) != (b < 0)) {
		q--
	}
	return q
}

func c07FloorMod(a, b int64) int64 {
	r := a % b
	if r != 0 && ((r < 0) != (b < 0)) {
		r += b
	}
	return r
}

// '/' : exact integer quotient when one exists (and fits), float otherwise; never a crash.
func VerifC07_divide_ii() {
	a, b := verifInt64("a"), verifInt64("b")
	out := BIF_divide(mlrval.FromInt(a), mlrval.FromInt(b))
	verifAssert(out.IsInt() || out.IsFloat(), "C07/divide/number")
	if b != 0 {
		overflow := a == math.MinInt64 && b == -1
		if !overflow && a%b == 0 {
			verifAssert(out.IsInt(), "C07/divide/int-when-exact")
			if out.IsInt() {
				verifAssert(out.AcquireIntValue() == a/b, "C07/divide/exact-quotient")
			}
		} else {
			verifAssert(out.IsFloat(), "C07/divide/float-when-inexact-or-overflow")
			if out.IsFloat() {
				verifAssert(out.AcquireFloatValue() == float64(a)/float64(b), "C07/divide/float-value")
			}
		}
	} else {
		verifAssert(out.IsFloat(), "C07/divide/float-on-zero-divisor")
	}
	verifReach("C07/divide/end")
}

// '//' floors.
func VerifC07_int_divide_ii() {
	a, b := verifInt64("a"), verifInt64("b")
	out := BIF_int_divide(mlrval.FromInt(a), mlrval.FromInt(b))
	verifAssert(out.IsInt() || out.IsFloat(), "C07/intdiv/number")
	if b != 0 {
		if a == math.MinInt64 && b == -1 {
			// the floor 2^63 does not fit: must not be a wrapped integer
			verifAssert(out.IsFloat(), "C07/intdiv/float-on-overflow")
		} else {
			verifAssert(out.IsInt(), "C07/intdiv/int")
			if out.IsInt() {
				verifAssert(out.AcquireIntValue() == c07FloorDiv(a, b), "C07/intdiv/floor")
			}
		}
	}
	verifReach("C07/intdiv/end")
}

// '%' takes the divisor's sign.
func VerifC07_modulus_ii() {
	a, b := verifInt64("a"), verifInt64("b")
	out := BIF_modulus(mlrval.FromInt(a), mlrval.FromInt(b))
	verifAssert(out.IsInt() || out.IsFloat(), "C07/mod/number")
	if b != 0 {
		verifAssert(out.IsInt(), "C07/mod/int")
		if out.IsInt() {
			r := out.AcquireIntValue()
			if b > 0 {
				verifAssert(r >= 0 && r < b, "C07/mod/range-pos-divisor")
			} else {
				verifAssert(r <= 0 && r > b, "C07/mod/range-neg-divisor")
			}
			verifAssert(r == c07FloorMod(a, b), "C07/mod/value")
		}
	}
	verifReach("C07/mod/end")
}

// dot operators: 64-bit two's complement, './' by zero is a number or an error, not a crash.
func VerifC07_dot_ops_ii() {
	a, b := verifInt64("a"), verifInt64("b")
	ia, ib := mlrval.FromInt(a), mlrval.FromInt(b)
	switch verifChoice("op", 4) {
	case 0:
		out := BIF_dot_plus(ia, ib)
		verifAssert(out.IsInt() && out.AcquireIntValue() == a+b, "C07/dotplus/wraps")
	case 1:
		out := BIF_dot_minus(ia, ib)
		verifAssert(out.IsInt() && out.AcquireIntValue() == a-b, "C07/dotminus/wraps")
	case 2:
		out := BIF_dot_times(ia, ib)
		verifAssert(out.IsInt() && out.AcquireIntValue() == a*b, "C07/dottimes/wraps")
	case 3:
		out := BIF_dot_divide(ia, ib)
		verifAssert(out.IsInt() || out.IsFloat() || out.IsError(), "C07/dotdivide/number-or-error")
		if b != 0 && out.IsInt() {
			verifAssert(out.AcquireIntValue() == a/b, "C07/dotdivide/quotient")
		}
	}
	verifReach("C07/dot/end")
}
