//go:build verif

package bifs

// C18 — the regex-taking functions on a palette of inputs × a palette of regexes with the constructs
// that trip index arithmetic (optional and alternated capture groups that take no part in a match,
// empty matches, anchors, case-insensitive literal forms, an invalid regex) × replacement texts with
// capture references: error values are fine, a panic is not.  The regex library runs natively on
// these concrete texts; Miller's own code around it (capture matrices, "\1" interpolation, map
// results) is what is executed.

import (
	"github.com/johnkerl/miller/v6/pkg/mlrval"
)

//verif:opts maxpaths=200000
func VerifC18_regex_functions() {
	inputs := []string{"abc", "", "xabc", "ab", "aXbXc", "ABC"}
	regexes := []string{"(x)?abc", "(a)|(b)", "a*", "^", "$", "(a)(b)?(c)", "(?i)abc", "\"A\"i", "(", "[", "b", "(.)(.)(.)(.)(.)(.)(.)(.)(.)(.)"}
	repls := []string{"X", "\\1", "<\\2\\1>", "\\9\\0", ""}
	in := mlrval.FromString(inputs[verifChoice("input", len(inputs))])
	re := mlrval.FromString(regexes[verifChoice("regex", len(regexes))])
	rp := mlrval.FromString(repls[verifChoice("replacement", len(repls))])
	switch verifChoice("function", 11) {
	case 0:
		BIF_strmatchx(in, re)
	case 1:
		BIF_strmatch(in, re)
	case 2:
		BIF_sub(in, re, rp)
	case 3:
		BIF_gsub(in, re, rp)
	case 4:
		BIF_regextract(in, re)
	case 5:
		BIF_regextract_or_else(in, re, rp)
	case 6:
		_, captures := BIF_string_matches_regexp(in, re)
		_ = captures
	case 7:
		BIF_string_does_not_match_regexp(in, re)
	case 8:
		BIF_ssub(in, re, rp)
	case 9:
		BIF_splitax(in, re)
	case 10:
		BIF_unformat(re, in)
	}
	verifReach("C18/regex-functions/end")
}
