//go:build verif

package stream

import (
	"bufio"
	"errors"

	"github.com/johnkerl/miller/v6/pkg/cli"
	"github.com/johnkerl/miller/v6/pkg/input"
	"github.com/johnkerl/miller/v6/pkg/output"
	"github.com/johnkerl/miller/v6/pkg/transformers"
	"github.com/johnkerl/miller/v6/pkg/types"
)


type stubReader struct{}

var wantInputErr, wantDataErr bool

// environment contract of the reader goroutine: it may post one input error.
func (r *stubReader) Read(filenames []string, ctx types.Context, readerChannel chan<- []*types.RecordAndContext,
	errorChannel chan error, downstreamDoneChannel <-chan bool) {
	if wantInputErr {
		verifEnvSend(errorChannel, errors.New("input error"), "ierr", "")
	}
}

func stubInputCreate(o *cli.TReaderOptions, n int64) (input.IRecordReader, error) { return &stubReader{}, nil }
func stubOutputCreate(o *cli.TWriterOptions) (output.IRecordWriter, error)        { return nil, nil }

// contract of the chain: it may post one data error (guaranteed buffered before EOS is forwarded: lemma E-post-before-EOS)
func stubChain(readerRecordChannel <-chan []*types.RecordAndContext, readerDownstreamDoneChannel chan<- bool,
	recordTransformers []transformers.RecordTransformer, writerRecordChannel chan<- []*types.RecordAndContext,
	dataProcessingErrorChannel chan<- error, options *cli.TOptions) {
	if wantDataErr {
		verifEnvSend(dataProcessingErrorChannel, errors.New("data error"), "derr", "")
	}
}

// contract of the writer: done is sent once, and only after any error of this run is already buffered.
func stubWriter(writerChannel <-chan []*types.RecordAndContext, recordWriter output.IRecordWriter,
	writerOptions *cli.TWriterOptions, doneChannel chan<- bool, dataProcessingErrorChannel chan<- error,
	bufferedOutputStream *bufio.Writer, outputIsStdout bool) {
	after := ""
	if wantDataErr {
		after = "derr"
	} else if wantInputErr {
		after = "ierr"
	}
	verifEnvSend(doneChannel, true, "done", after)
}

type nopWC struct{}

func (nopWC) Write(p []byte) (int, error) { return len(p), nil }
func (nopWC) Close() error                { return nil }

// E-main-loop: the real stream.Stream from the channel creation down, with the reader, chain and
// writer goroutines replaced by contract stubs that are handed the REAL channels: each error
// channel receives at most one message at a symbolic time, done is sent once and — by the
// E-post-before-EOS lemma — only after any error of this run is already buffered.  Arrival times
// and every select pick among ready cases are symbolic.  Stream must return a non-nil error
// whenever an error was ever sent, under every ordering (incl. "both ready, done picked first").
//verif:opts engine-only
func VerifC17_main_loop() {
	verifReplace("github.com/johnkerl/miller/v6/pkg/input.Create", stubInputCreate)
	verifReplace("github.com/johnkerl/miller/v6/pkg/output.Create", stubOutputCreate)
	verifReplace("github.com/johnkerl/miller/v6/pkg/transformers.ChainTransformer", stubChain)
	verifReplace("github.com/johnkerl/miller/v6/pkg/output.ChannelWriter", stubWriter)
	verifSpawnSync(true) // the three stubs only register their contracts on the channels and return
	wantInputErr = verifBool("input_error_occurs")
	wantDataErr = verifBool("data_error_occurs")
	options := &cli.TOptions{}
	err := Stream([]string{"f"}, options, nil, nopWC{}, true)
	if wantInputErr || wantDataErr {
		verifAssert(err != nil, "C17/main/error-returned-under-every-ordering")
	} else {
		verifAssert(err == nil, "C17/main/no-spurious-error")
	}
	verifReach("C17/main/end")
}

// E-output-write-error: record writers and the channel writer do not look at the result of their
// writes to the buffered main output; a failed write is remembered by bufio and must come out of
// Stream through the final Flush.  The writer stub writes a symbolic amount (nothing, a few bytes,
// more than one bufio buffer in a single piece, or small-then-large) to the REAL bufio.Writer that
// Stream created around an output whose Write fails from a symbolic call on; the underlying
// handle records whether any Write failed.  Stream must return an error exactly when one did.
type c17FailingOut struct {
	failFrom int // index of the first Write call that fails
	calls    int
	failed   bool
}

func (o *c17FailingOut) Write(p []byte) (int, error) {
	me := o.calls
	o.calls++
	if me >= o.failFrom {
		o.failed = true
		return 0, errors.New("no space left on device")
	}
	return len(p), nil
}
func (o *c17FailingOut) WriteString(s string) (int, error) { return o.Write([]byte(s)) } // as *os.File has
func (o *c17FailingOut) Close() error                      { return nil }

var c17WritePlan int

func stubWriterWrites(writerChannel <-chan []*types.RecordAndContext, recordWriter output.IRecordWriter,
	writerOptions *cli.TWriterOptions, doneChannel chan<- bool, dataProcessingErrorChannel chan<- error,
	bufferedOutputStream *bufio.Writer, outputIsStdout bool) {
	small := "a=1\n"
	big := string(make([]byte, 5000)) // larger than bufio's 4096-byte buffer: handed straight to the output when the buffer is empty
	switch c17WritePlan {
	case 0:
	case 1:
		bufferedOutputStream.WriteString(small)
	case 2:
		bufferedOutputStream.WriteString(big)
	case 3:
		bufferedOutputStream.WriteString(small)
		bufferedOutputStream.WriteString(big)
	case 4:
		bufferedOutputStream.WriteString(big)
		bufferedOutputStream.WriteString(small)
	case 5:
		bufferedOutputStream.Write([]byte(big))
	}
	doneChannel <- true
}

//verif:opts engine-only
func VerifC17_output_write_error_surfaces() {
	verifReplace("github.com/johnkerl/miller/v6/pkg/input.Create", stubInputCreate)
	verifReplace("github.com/johnkerl/miller/v6/pkg/output.Create", stubOutputCreate)
	verifReplace("github.com/johnkerl/miller/v6/pkg/transformers.ChainTransformer", stubChain)
	verifReplace("github.com/johnkerl/miller/v6/pkg/output.ChannelWriter", stubWriterWrites)
	verifSpawnSync(true)
	wantInputErr, wantDataErr = false, false
	c17WritePlan = verifChoice("write_plan", 6)
	out := &c17FailingOut{failFrom: verifChoice("fail_from_write", 4)} // 3: never (at most 3 writes reach the handle)
	err := Stream([]string{"f"}, &cli.TOptions{}, nil, out, true)
	if out.failed {
		verifAssert(err != nil, "C17/output/failed-write-to-main-output-is-returned")
	} else {
		verifAssert(err == nil, "C17/output/no-spurious-error")
	}
	verifReach("C17/output/end")
}
