//go:build verif

package lib

// C18 — Miller's regex-literal forms ("...", /.../, "..."i, /.../i) on arbitrary short text: the
// unwrapping code in CompileMillerRegex never slices out of range, whatever the bytes (the regex
// library call behind it is replaced by a stub: compiling is the library's business).

import (
	"regexp"
)

func c18StubCompile(s string) (*regexp.Regexp, error) { return nil, nil }

//verif:opts engine-only
func VerifC18_regex_literal_forms() {
	verifReplace("github.com/johnkerl/miller/v6/pkg/lib.regexpCompileCached", c18StubCompile)
	s := verifString("regex", verifChoice("len", 5))
	CompileMillerRegex(s)
	verifReach("C18/regex-literal/end")
}
