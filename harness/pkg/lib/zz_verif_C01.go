//go:build verif

package lib

// C01 (TSV field codec) — TSVDecodeField(TSVEncodeField(s)) == s for every byte string, and the
// encoded text is IANA-TSV clean (no raw TAB, LF or CR), so a field can never break the row.

//verif:opts unwind=200
func VerifC01_tsv_codec_roundtrip() {
	n := 4
	if verifTier() > 0 {
		n = 6
	}
	l := verifChoice("len", n+1)
	s := verifString("s", l)
	enc := TSVEncodeField(s)
	for i := 0; i < len(enc); i++ {
		verifAssert(enc[i] != '\t' && enc[i] != '\n' && enc[i] != '\r', "C01/tsv/encoded-has-no-raw-separator")
	}
	dec := TSVDecodeField(enc)
	verifAssert(dec == s, "C01/tsv/decode-encode-is-identity")
	verifReach("C01/tsv/end")
}

// an independent IANA-TSV reader recovers the same cell from Miller's encoding, and Miller
// recovers the cell from the reference encoding
//verif:opts unwind=200
func VerifC01_tsv_codec_vs_reference() {
	n := 3
	if verifTier() > 0 {
		n = 5
	}
	l := verifChoice("len", n+1)
	s := verifString("s", l)
	// reference encoder: \\ \t \n \r escaped, every other byte verbatim
	ref := []byte{}
	for i := 0; i < len(s); i++ {
		switch s[i] {
		case '\\':
			ref = append(ref, '\\', '\\')
		case '\t':
			ref = append(ref, '\\', 't')
		case '\n':
			ref = append(ref, '\\', 'n')
		case '\r':
			ref = append(ref, '\\', 'r')
		default:
			ref = append(ref, s[i])
		}
	}
	verifAssert(TSVDecodeField(string(ref)) == s, "C01/tsv/reads-reference-encoding")
	// reference decoder on Miller's encoding
	enc := TSVEncodeField(s)
	out := []byte{}
	for i := 0; i < len(enc); i++ {
		if enc[i] == '\\' && i+1 < len(enc) {
			switch enc[i+1] {
			case '\\':
				out = append(out, '\\')
				i++
				continue
			case 't':
				out = append(out, '\t')
				i++
				continue
			case 'n':
				out = append(out, '\n')
				i++
				continue
			case 'r':
				out = append(out, '\r')
				i++
				continue
			}
		}
		out = append(out, enc[i])
	}
	verifAssert(string(out) == s, "C01/tsv/reference-reader-recovers-cell")
	verifReach("C01/tsv-ref/end")
}
