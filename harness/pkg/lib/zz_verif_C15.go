//go:build verif

package lib

// C15 (literal codecs written in Miller): latin1 <-> utf8 are inverse; the backslash decoders never
// read past the end of their input and implement the escape table.

//verif:opts unwind=300
func VerifC15_latin1_roundtrip() {
	n := 3
	if verifTier() > 0 {
		n = 4
	}
	s := verifString("s", verifChoice("len", n+1))
	u, err := TryLatin1ToUTF8(s)
	verifAssert(err == nil, "C15/latin1/to-utf8-never-fails")
	back, err2 := TryUTF8ToLatin1(u)
	verifAssert(err2 == nil && back == s, "C15/latin1/utf8-then-latin1-is-identity")
	// each latin1 byte becomes one character: 1 byte below 0x80, else 2 bytes
	want := 0
	for i := 0; i < len(s); i++ {
		if s[i] < 0x80 {
			want++
		} else {
			want += 2
		}
	}
	verifAssert(len(u) == want, "C15/latin1/encoded-length")
	verifReach("C15/latin1/end")
}

// reference escape table for the one-character escapes
func c15Simple(c byte) (byte, bool) {
	switch c {
	case 'a':
		return 7, true
	case 'b':
		return 8, true
	case 'f':
		return 12, true
	case 'n':
		return 10, true
	case 'r':
		return 13, true
	case 't':
		return 9, true
	case 'v':
		return 11, true
	case '\\':
		return '\\', true
	case '\'':
		return '\'', true
	case '"':
		return '"', true
	case '?':
		return '?', true
	}
	return 0, false
}

// every byte string up to 4 (quick) / 6 (thorough) bytes: no out-of-range read (implicit
// assertions); text without a backslash is unchanged; a lone simple escape decodes per the table;
// a trailing backslash is kept.
//verif:opts unwind=300 maxpaths=400000
func VerifC15_unbackslash() {
	n := 4
	if verifTier() > 0 {
		n = 6
	}
	s := verifString("s", verifChoice("len", n+1))
	out := UnbackslashStringLiteral(s)
	hasBackslash := false
	for i := 0; i < len(s); i++ {
		if s[i] == '\\' {
			hasBackslash = true
		}
	}
	if !hasBackslash {
		verifAssert(out == s, "C15/unbackslash/plain-text-unchanged")
	}
	if len(s) == 2 && s[0] == '\\' {
		if r, ok := c15Simple(s[1]); ok {
			verifAssert(len(out) == 1 && out[0] == r, "C15/unbackslash/simple-escape-table")
		}
	}
	if len(s) >= 1 && s[len(s)-1] == '\\' && (len(s) == 1 || s[len(s)-2] != '\\') {
		verifAssert(len(out) >= 1 && out[len(out)-1] == '\\', "C15/unbackslash/trailing-backslash-kept")
	}
	verifAssert(len(out) <= len(s), "C15/unbackslash/never-longer-for-short-input")
	_ = UnhexStringLiteral(s)
	verifReach("C15/unbackslash/end")
}
