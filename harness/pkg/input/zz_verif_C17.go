//go:build verif

package input

// C17 (readers) — a data error in the input is posted on the error channel BEFORE the end-of-stream
// marker is sent (so that stream.Stream, which drains the error channel once after the writer is
// done, cannot miss it), also when the bad line sits in the second file or after good records.
// CSV-lite, CSV and TSV readers with an explicit header over one or two files of three lines each
// (each line: blank / one field / two fields); reference: a data line whose field count differs from
// its header's is an error (ragged input not allowed).

import (
	"github.com/johnkerl/miller/v6/pkg/cli"
)

//verif:opts engine-only maxpaths=200000
func VerifC17_reader_data_error_is_posted_before_end_of_stream() {
	verifReplace("github.com/johnkerl/miller/v6/pkg/lib.OpenFileForRead", c05Open)
	type rc struct{ format, fs string }
	c := []rc{{"csvlite", ","}, {"csv", ","}, {"tsv", "\t"}}[verifChoice("reader", 3)]
	mismatch := false
	mk := func(tag string) string {
		text := ""
		header := 0 // field count of the current header; 0: none yet
		for i := 0; i < 3; i++ {
			k := verifChoice(tag+"_line", 3)
			if c.format != "csvlite" {
				verifAssume(k != 0) // (how the full CSV and the TSV reader count a blank line's fields is their own business)
			}
			text += []string{"", "a", "a" + c.fs + "b"}[k] + "\n"
			switch {
			case k == 0:
				if c.format == "csvlite" {
					header = 0 // blank line: schema change
				}
			case header == 0:
				header = k
			case k != header:
				mismatch = true
			}
		}
		return text
	}
	names := []string{"f1"}
	c05Files = map[string]string{"f1": mk("f1")}
	if verifChoice("two_files", 2) == 1 && !mismatch {
		c05Files["f2"] = mk("f2")
		names = append(names, "f2")
	}
	o := cli.DefaultReaderOptions()
	o.InputFileFormat = c.format
	verifAssert(cli.FinalizeReaderOptions(&o) == nil, "C17/reader/options")
	r, err := Create(&o, 1+int64(verifChoice("records_per_batch", 2)))
	verifAssert(err == nil, "C17/reader/created")
	got := c05ReadAll(r, names)
	if mismatch {
		verifAssert(got.hadErr, "C17/reader/data-error-is-on-the-error-channel-when-the-end-of-stream-marker-arrives")
	} else {
		verifAssert(!got.hadErr, "C17/reader/no-spurious-error")
	}
	verifReach("C17/reader/end")
}
