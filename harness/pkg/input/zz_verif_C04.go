//go:build verif

package input

// C04 (readers) — the records read, and whether the run fails, do not depend on --records-per-batch:
// a file of five lines, each chosen among blank / "a" / "b" / "a,b" / "b,a" (so headers, data lines,
// schema-change blank lines and ragged lines fall on every position relative to the batch edges), is
// read by the real CSV-lite (explicit and implicit header), TSV and DKVP readers with batch size 1, 2
// or 3 and with batch size 500: same records in the same order with the same context, same error
// status.

import (
	"github.com/johnkerl/miller/v6/pkg/cli"
)

//verif:opts engine-only maxpaths=200000
func VerifC04_reader_batch_size_independence() {
	verifReplace("github.com/johnkerl/miller/v6/pkg/lib.OpenFileForRead", c05Open)
	type rc struct {
		format   string
		implicit bool
		fs       string
	}
	c := []rc{{"csvlite", false, ","}, {"csvlite", true, ","}, {"tsv", false, "\t"}, {"dkvp", false, ","}, {"pprint", false, " "}}[verifChoice("reader", 5)]
	text := ""
	for i := 0; i < 5; i++ {
		text += []string{"", "a", "b", "a" + c.fs + "b", "b" + c.fs + "a"}[verifChoice("line", 5)] + "\n"
	}
	c05Files = map[string]string{"f": text}
	o := cli.DefaultReaderOptions()
	o.InputFileFormat = c.format
	o.UseImplicitHeader = c.implicit
	verifAssert(cli.FinalizeReaderOptions(&o) == nil, "C04/batch/options")
	small := int64(1 + verifChoice("records_per_batch", 3))
	r1, err1 := Create(&o, small)
	r2, err2 := Create(&o, 500)
	verifAssert(err1 == nil && err2 == nil, "C04/batch/readers-created")
	a := c05ReadAll(r1, []string{"f"})
	b := c05ReadAll(r2, []string{"f"})
	verifAssert(a.hadErr == b.hadErr, "C04/batch/a-run-that-fails-under-one-batch-size-fails-under-all")
	if !a.hadErr && !b.hadErr {
		verifAssert(len(a.recs) == len(b.recs), "C04/batch/same-number-of-records")
		for i := 0; i < len(a.recs) && i < len(b.recs); i++ {
			verifAssert(c05SameRecord(a.recs[i], b.recs[i]), "C04/batch/same-records-in-order")
			verifAssert(a.recs[i].Context.NR == b.recs[i].Context.NR && a.recs[i].Context.FNR == b.recs[i].Context.FNR, "C04/batch/same-context")
		}
	}
	verifReach("C04/batch/end")
}
