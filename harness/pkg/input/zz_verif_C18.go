//go:build verif

package input

// C18 (ii) — readers on arbitrary bytes: every record reader built by the real factory
// (input.Create) for each format and header/ragged option is run over an in-memory file of 4 (quick)
// / 5 (thorough) SYMBOLIC bytes drawn from that format's structural alphabet (separators, pipes,
// quotes, dashes, newline, CR, a letter, a digit): it may deliver records or post an error, but it
// never panics, indexes out of range or allocates a negative size.  Regex-valued separators
// (--ifs-regex / --ips-regex) are not covered (the regex library runs on concrete text only).

import (
	"github.com/johnkerl/miller/v6/pkg/cli"
)

type c18ReaderCase struct {
	format   string
	alphabet string
	set      func(o *cli.TReaderOptions)
}

func c18ReaderCases() []c18ReaderCase {
	none := func(o *cli.TReaderOptions) {}
	implicit := func(o *cli.TReaderOptions) { o.UseImplicitHeader = true }
	ragged := func(o *cli.TReaderOptions) { o.AllowRaggedCSVInput = true }
	barred := func(o *cli.TReaderOptions) { o.BarredPprintInput = true }
	barredImplicit := func(o *cli.TReaderOptions) { o.BarredPprintInput = true; o.UseImplicitHeader = true }
	return []c18ReaderCase{
		{"dkvp", "a1=,\n\r", none},
		{"nidx", "a1 \n\r", none},
		{"csvlite", "a1,\"\n\r", none},
		{"csvlite", "a1,\"\n\r", implicit},
		{"csvlite", "a1,\"\n\r", ragged},
		{"csv", "a1,\"\n\r", none},
		{"csv", "a1,\"\n\r", implicit},
		{"csv", "a1,\"\n\r", ragged},
		{"tsv", "a1\t\\\n\r", none},
		{"tsv", "a1\t\\\n\r", implicit},
		{"tsv", "a1\t\\\n\r", ragged},
		{"xtab", "a1 \n\r", none},
		{"pprint", "a1 -\n\r", none},
		{"pprint", "a1 -\n\r", implicit},
		{"pprint", "a1 |+-\n", barred},
		{"pprint", "a1 |+-\n", barredImplicit},
		{"markdown", "a1 |-\n", none},
	}
}

//verif:opts engine-only maxpaths=400000 unwind=300
func VerifC18_readers_on_arbitrary_bytes() {
	verifReplace("github.com/johnkerl/miller/v6/pkg/lib.OpenFileForRead", c05Open)
	cases := c18ReaderCases()
	c := cases[verifChoice("reader", len(cases))]
	verifObserveStr("fn", c.format)
	n := 4 + verifTier()
	s := verifString("content", n)
	for i := 0; i < n; i++ {
		ok := false
		for k := 0; k < len(c.alphabet); k++ {
			ok = ok || s[i] == c.alphabet[k]
		}
		verifAssume(ok)
	}
	o := cli.DefaultReaderOptions()
	o.InputFileFormat = c.format
	c.set(&o)
	if cli.FinalizeReaderOptions(&o) != nil {
		verifReach("C18/readers/options-refused")
		return
	}
	r, err := Create(&o, 1+int64(verifChoice("records_per_batch", 2)))
	if err != nil || r == nil {
		verifReach("C18/readers/refused")
		return
	}
	c05Files = map[string]string{"f": s}
	c05ReadAll(r, []string{"f"})
	verifReach("C18/readers/end")
}

// Regex-valued separators (--ifs-regex / --ips-regex) run the regex library, which the engine
// executes on concrete text only: a palette of concrete DKVP/NIDX lines with doubled, leading and
// trailing separators, empty pairs and keyless pairs, under each regex option.
//verif:opts engine-only maxpaths=100000
func VerifC18_readers_regex_separators() {
	verifReplace("github.com/johnkerl/miller/v6/pkg/lib.OpenFileForRead", c05Open)
	contents := []string{"a=1,,b=2\nc=3,\n", ",\n", "=\n", "a==1,=2\n", "a=1;b=2\n", " a=1 , b = 2 \n", "abc\n", ",,,\n=,=\n", "a=1", ""}
	content := contents[verifChoice("content", len(contents))]
	format := []string{"dkvp", "nidx"}[verifChoice("format", 2)]
	o := cli.DefaultOptions()
	args := [][]string{
		{"--ifs-regex", "[,;]"}, {"--ips-regex", "="}, {"--ifs-regex", ",+", "--ips-regex", "=+"}, {"--ifs-regex", " *, *", "--ips-regex", " *= *"},
		{"--repifs"}, {"--ifs", ";", "--ips", ":"},
	}[verifChoice("separators", 6)]
	all := append([]string{"--i" + format}, args...)
	argi := 0
	for argi < len(all) {
		ok, err := cli.FLAG_TABLE.Parse(all, len(all), &argi, o)
		if err != nil || !ok {
			verifReach("C18/readers-regex/flags-refused")
			return
		}
	}
	if cli.FinalizeReaderOptions(&o.ReaderOptions) != nil {
		verifReach("C18/readers-regex/options-refused")
		return
	}
	r, err := Create(&o.ReaderOptions, 1)
	if err != nil || r == nil {
		verifReach("C18/readers-regex/refused")
		return
	}
	c05Files = map[string]string{"f": content}
	c05ReadAll(r, []string{"f"})
	verifReach("C18/readers-regex/end")
}
