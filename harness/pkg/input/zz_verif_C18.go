//go:build verif

package input

// C18 (ii) — readers on arbitrary bytes: every record reader built by the real factory
// (input.Create) for each format and header/ragged option is run over an in-memory file of 4 (quick)
// / 5 (thorough) SYMBOLIC bytes drawn from that format's structural alphabet (separators, pipes,
// quotes, dashes, newline, CR, a letter, a digit): it may deliver records or post an error, but it
// never panics, indexes out of range or allocates a negative size.  Regex-valued separators
// (--ifs-regex / --ips-regex) are not covered (the regex library runs on concrete text only).

import (
	"github.com/johnkerl/miller/v6/pkg/cli"
)

type c18ReaderCase struct {
	format   string
	alphabet string
	set      func(o *cli.TReaderOptions)
}

func c18ReaderCases() []c18ReaderCase {
	none := func(o *cli.TReaderOptions) {}
	implicit := func(o *cli.TReaderOptions) { o.UseImplicitHeader = true }
	ragged := func(o *cli.TReaderOptions) { o.AllowRaggedCSVInput = true }
	barred := func(o *cli.TReaderOptions) { o.BarredPprintInput = true }
	barredImplicit := func(o *cli.TReaderOptions) { o.BarredPprintInput = true; o.UseImplicitHeader = true }
	return []c18ReaderCase{
		{"dkvp", "a1=,\n\r", none},
		{"nidx", "a1 \n\r", none},
		{"csvlite", "a1,\"\n\r", none},
		{"csvlite", "a1,\"\n\r", implicit},
		{"csvlite", "a1,\"\n\r", ragged},
		{"csv", "a1,\"\n\r", none},
		{"csv", "a1,\"\n\r", implicit},
		{"csv", "a1,\"\n\r", ragged},
		{"tsv", "a1\t\\\n\r", none},
		{"tsv", "a1\t\\\n\r", implicit},
		{"tsv", "a1\t\\\n\r", ragged},
		{"xtab", "a1 \n\r", none},
		{"pprint", "a1 -\n\r", none},
		{"pprint", "a1 -\n\r", implicit},
		{"pprint", "a1 |+-\n", barred},
		{"pprint", "a1 |+-\n", barredImplicit},
		{"markdown", "a1 |-\n", none},
	}
}

//verif:opts engine-only maxpaths=400000 unwind=300
func VerifC18_readers_on_arbitrary_bytes() {
	verifReplace("github.com/johnkerl/miller/v6/pkg/lib.OpenFileForRead", c05Open)
	cases := c18ReaderCases()
	c := cases[verifChoice("reader", len(cases))]
	verifObserveStr("fn", c.format)
	n := 4 + verifTier()
	s := verifString("content", n)
	for i := 0; i < n; i++ {
		ok := false
		for k := 0; k < len(c.alphabet); k++ {
			ok = ok || s[i] == c.alphabet[k]
		}
		verifAssume(ok)
	}
	o := cli.DefaultReaderOptions()
	o.InputFileFormat = c.format
	c.set(&o)
	if cli.FinalizeReaderOptions(&o) != nil {
		verifReach("C18/readers/options-refused")
		return
	}
	r, err := Create(&o, 1+int64(verifChoice("records_per_batch", 2)))
	if err != nil || r == nil {
		verifReach("C18/readers/refused")
		return
	}
	c05Files = map[string]string{"f": s}
	c05ReadAll(r, []string{"f"})
	verifReach("C18/readers/end")
}

// Regex-valued separators (--ifs-regex / --ips-regex) run the regex library, which the engine
// executes on concrete text only: a palette of concrete DKVP/NIDX lines with doubled, leading and
// trailing separators, empty pairs and keyless pairs, under each regex option.
//verif:opts engine-only maxpaths=100000
func VerifC18_readers_regex_separators() {
	verifReplace("github.com/johnkerl/miller/v6/pkg/lib.OpenFileForRead", c05Open)
	contents := []string{"a=1,,b=2\nc=3,\n", ",\n", "=\n", "a==1,=2\n", "a=1;b=2\n", " a=1 , b = 2 \n", "abc\n", ",,,\n=,=\n", "a=1", ""}
	content := contents[verifChoice("content", len(contents))]
	format := []string{"dkvp", "nidx"}[verifChoice("format", 2)]
	o := cli.DefaultOptions()
	args := [][]string{
		{"--ifs-regex", "[,;]"}, {"--ips-regex", "="}, {"--ifs-regex", ",+", "--ips-regex", "=+"}, {"--ifs-regex", " *, *", "--ips-regex", " *= *"},
		{"--repifs"}, {"--ifs", ";", "--ips", ":"},
	}[verifChoice("separators", 6)]
	all := append([]string{"--i" + format}, args...)
	argi := 0
	for argi < len(all) {
		ok, err := cli.FLAG_TABLE.Parse(all, len(all), &argi, o)
		if err != nil || !ok {
			verifReach("C18/readers-regex/flags-refused")
			return
		}
	}
	if cli.FinalizeReaderOptions(&o.ReaderOptions) != nil {
		verifReach("C18/readers-regex/options-refused")
		return
	}
	r, err := Create(&o.ReaderOptions, 1)
	if err != nil || r == nil {
		verifReach("C18/readers-regex/refused")
		return
	}
	c05Files = map[string]string{"f": content}
	c05ReadAll(r, []string{"f"})
	verifReach("C18/readers-regex/end")
}

// Repeated field names in one record, in wide lines: with the default --dedupe-field-names the
// second occurrence is renamed "<name>_2", with --no-dedupe-field-names the later value replaces
// the earlier one in place; neither may crash whatever the width of the line (n over {3, 8, 9, 17,
// 33}: around the record arena's first slab) and the batch size (1 or 500), for every line-oriented
// reader that has names.  Two records; the repeated pair of positions is chosen per path.
//verif:opts engine-only maxpaths=100000 unwind=2000
func VerifC18_readers_repeated_names_wide() {
	verifReplace("github.com/johnkerl/miller/v6/pkg/lib.OpenFileForRead", c05Open)
	format := []string{"dkvp", "csvlite", "csv", "tsv", "xtab", "pprint"}[verifChoice("format", 6)]
	n := []int{3, 8, 9, 17, 33}[verifChoice("fields", 5)]
	i := []int{0, n - 2}[verifChoice("first_occurrence", 2)]
	j := []int{i + 1, n - 1}[verifChoice("second_occurrence", 2)]
	dedupe := verifChoice("no_dedupe", 2) == 0
	batch := []int64{1, 500}[verifChoice("batch", 2)]
	last := verifString("last_value", 1)
	verifAssume(last[0] >= 'a' && last[0] <= 'z')
	itoa := func(k int) string {
		if k < 10 {
			return string(rune('0' + k))
		}
		return string(rune('0'+k/10)) + string(rune('0'+k%10))
	}
	names, values := make([]string, n), make([]string, n)
	for k := 0; k < n; k++ {
		names[k], values[k] = "k"+itoa(k), "v"+itoa(k)
	}
	names[j] = names[i]
	values[n-1] = last
	join := func(parts []string, sep string) string {
		s := ""
		for k, p := range parts {
			if k > 0 {
				s += sep
			}
			s += p
		}
		return s
	}
	text := ""
	switch format {
	case "dkvp":
		pairs := make([]string, n)
		for k := range pairs {
			pairs[k] = names[k] + "=" + values[k]
		}
		text = join(pairs, ",") + "\n" + join(pairs, ",") + "\n"
	case "csvlite", "csv":
		text = join(names, ",") + "\n" + join(values, ",") + "\n" + join(values, ",") + "\n"
	case "tsv":
		text = join(names, "\t") + "\n" + join(values, "\t") + "\n" + join(values, "\t") + "\n"
	case "pprint":
		text = join(names, " ") + "\n" + join(values, " ") + "\n" + join(values, " ") + "\n"
	case "xtab":
		for r := 0; r < 2; r++ {
			for k := 0; k < n; k++ {
				text += names[k] + " " + values[k] + "\n"
			}
			text += "\n"
		}
	}
	o := cli.DefaultOptions()
	o.ReaderOptions.InputFileFormat = format
	if !dedupe {
		all := []string{"--no-dedupe-field-names"}
		argi := 0
		ok, err := cli.FLAG_TABLE.Parse(all, 1, &argi, o)
		verifAssert(ok && err == nil, "C18/repeated-names/flag-accepted")
	}
	verifAssert(cli.FinalizeReaderOptions(&o.ReaderOptions) == nil, "C18/repeated-names/options")
	r, err := Create(&o.ReaderOptions, batch)
	verifAssert(err == nil && r != nil, "C18/repeated-names/reader-created")
	c05Files = map[string]string{"f": text}
	got := c05ReadAll(r, []string{"f"})
	verifAssert(!got.hadErr && len(got.recs) == 2, "C18/repeated-names/two-records-read")
	for _, rac := range got.recs {
		var wantK, wantV []string
		for k := 0; k < n; k++ {
			switch {
			case k == j && dedupe:
				wantK, wantV = append(wantK, names[k]+"_2"), append(wantV, values[k])
			case k == j:
			case k == i && !dedupe:
				wantK, wantV = append(wantK, names[k]), append(wantV, values[j])
			default:
				wantK, wantV = append(wantK, names[k]), append(wantV, values[k])
			}
		}
		verifAssert(rac.Record.FieldCount == int64(len(wantK)), "C18/repeated-names/field-count")
		pe := rac.Record.Head
		for k := 0; k < len(wantK) && pe != nil; k++ {
			verifAssert(pe.Key == wantK[k] && pe.Value.String() == wantV[k], "C18/repeated-names/documented-names-and-values")
			pe = pe.Next
		}
	}
	verifReach("C18/repeated-names/end")
}
