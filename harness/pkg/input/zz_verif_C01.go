//go:build verif

package input

// C01 (whole writer -> whole reader) — records written by the REAL record writer of a format
// (output.Create: header handling, per-field encoding, separators) and read back by the REAL record
// reader of that format (input.Create: line reader, splitter, per-field decoding, header handling)
// are the same records: same names, same order, same value bytes.  Two records of two fields; the
// first record's two names (one symbolic byte each) and values (two + one symbolic bytes) range over
// the format's representable domain, the second record is concrete (it exercises "header once").
// The bytes travel through a stubbed lib.OpenFileForRead.

import (
	"bufio"
	"bytes"

	"github.com/johnkerl/miller/v6/pkg/cli"
	"github.com/johnkerl/miller/v6/pkg/mlrval"
	"github.com/johnkerl/miller/v6/pkg/output"
	"github.com/johnkerl/miller/v6/pkg/types"
)

type c01Domain struct {
	format    string
	forbidden string // bytes a name or value cannot contain in this format
	nameExtra string // bytes only a name cannot contain
	nonEmpty  bool   // values cannot be empty in this format
	hetero    bool   // the format can carry records with different field names in one stream
	ascii     bool   // restrict to printable ASCII (column alignment counts characters: keeps UTF-8 decoding out)
	flags     []string // main-flag variant, parsed by the real cli.FLAG_TABLE after the format is set
	posNames  bool     // names are the positions "1", "2" (headerless output read back with an implicit header; NIDX)
}

func c01InDomain(s string, forbidden string) {
	for i := 0; i < len(s); i++ {
		for k := 0; k < len(forbidden); k++ {
			verifAssume(s[i] != forbidden[k])
		}
	}
}

func c01WriteRead(d c01Domain) {
	verifReplace("github.com/johnkerl/miller/v6/pkg/lib.OpenFileForRead", c05Open)
	o := cli.DefaultOptions()
	o.ReaderOptions.InputFileFormat = d.format
	o.WriterOptions.OutputFileFormat = d.format
	for argi := 0; argi < len(d.flags); {
		ok, err := cli.FLAG_TABLE.Parse(d.flags, len(d.flags), &argi, o)
		verifAssert(ok && err == nil, "C01/wr/variant-flags-accepted")
		if !ok || err != nil {
			return
		}
	}
	verifAssert(cli.FinalizeReaderOptions(&o.ReaderOptions) == nil && cli.FinalizeWriterOptions(&o.WriterOptions) == nil, "C01/wr/options")

	k1 := verifString("name1", 1)
	k2 := verifString("name2", 1)
	if d.posNames {
		k1, k2 = "1", "2"
	}
	v1 := verifString("value1", 2)
	v2 := verifString("value2", 1)
	if !d.posNames {
		verifAssume(k1 != k2) // names are unique within a record (C12)
	}
	c01InDomain(k1, d.forbidden+d.nameExtra)
	c01InDomain(k2, d.forbidden+d.nameExtra)
	c01InDomain(v1, d.forbidden)
	c01InDomain(v2, d.forbidden)
	if d.ascii {
		for _, t := range []string{k1, k2, v1, v2} {
			for i := 0; i < len(t); i++ {
				verifAssume(t[i] > 0x20 && t[i] < 0x7f)
			}
		}
	}
	if d.nonEmpty {
		verifAssume(v2 != "-") // PPRINT writes an empty value as "-"
	}
	// LF-terminated formats auto-detect CRLF: a carriage return as the last byte of a line is not
	// representable unless the format escapes it (TSV does)
	if d.format != "tsv" && d.format != "csv" {
		verifAssume(v2[0] != '\r')
	}
	if d.format == "xtab" { // every field is a line of its own
		verifAssume(v1[1] != '\r')
	}
	if d.format == "csv" { // the reader (like Go's encoding/csv) folds CRLF inside a quoted field to LF
		verifAssume(!(v1[0] == '\r' && v1[1] == '\n'))
	}

	names := []string{k1, k2}
	rowNames := [][]string{names, names, names}
	rows := [][]string{{v1, v2}, {"x", "y"}, {"p", "q"}}
	if d.hetero {
		// the second and third records may carry one more field, or lack the last one (schema change)
		verifAssume(k1 != "zz" && k2 != "zz")
		switch verifChoice("second_record_shape", 3) {
		case 1:
			rowNames[1], rows[1] = []string{k1, k2, "zz"}, []string{"x", "y", "w"}
		case 2:
			rowNames[1], rows[1] = []string{k1}, []string{"x"}
		}
		switch verifChoice("third_record_shape", 2) {
		case 1:
			rowNames[2], rows[2] = []string{k1, k2, "zz"}, []string{"p", "q", "r"}
		}
	} else {
		rowNames, rows = rowNames[:2], rows[:2]
	}
	w, err := output.Create(&o.WriterOptions)
	verifAssert(err == nil && w != nil, "C01/wr/writer-created")
	var buf bytes.Buffer
	bw := bufio.NewWriter(&buf)
	ctx := types.NewContext()
	for j, row := range rows {
		rec := mlrval.NewMlrmapAsRecord()
		for i, n := range rowNames[j] {
			rec.PutReference(n, mlrval.FromString(row[i]))
		}
		verifAssert(w.Write(rec, ctx, bw, false) == nil, "C01/wr/write-ok")
	}
	verifAssert(w.Write(nil, ctx, bw, false) == nil, "C01/wr/write-end-ok")
	bw.Flush()

	c05Files = map[string]string{"f": buf.String()}
	r, err := Create(&o.ReaderOptions, 500)
	verifAssert(err == nil && r != nil, "C01/wr/reader-created")
	got := c05ReadAll(r, []string{"f"})
	verifAssert(!got.hadErr, "C01/wr/own-output-is-read-without-error")
	verifAssert(len(got.recs) == len(rows), "C01/wr/same-number-of-records")
	for j := 0; j < len(got.recs) && j < len(rows); j++ {
		pe := got.recs[j].Record.Head
		for i, n := range rowNames[j] {
			verifAssert(pe != nil, "C01/wr/same-number-of-fields")
			if pe == nil {
				break
			}
			verifAssert(pe.Key == n, "C01/wr/same-names-in-order")
			verifAssert(pe.Value.String() == rows[j][i], "C01/wr/same-value-bytes")
			pe = pe.Next
		}
		verifAssert(pe == nil, "C01/wr/same-number-of-fields")
	}
	verifReach("C01/wr/end")
}

// TSV: every byte is representable (tab, LF, CR and backslash are escaped)
//verif:opts engine-only maxpaths=300000 unwind=300
func VerifC01_tsv_writer_reader_roundtrip() {
	c01WriteRead(c01Domain{format: "tsv"})
}

// DKVP: names and values free of the separators; names non-numeric is not required
//verif:opts engine-only maxpaths=300000 unwind=300
func VerifC01_dkvp_writer_reader_roundtrip() {
	c01WriteRead(c01Domain{format: "dkvp", forbidden: ",=\n", hetero: true})
}

// CSV-lite: no quoting on output unless needed; fields free of separator, quote, CR and LF
//verif:opts engine-only maxpaths=300000 unwind=300
func VerifC01_csvlite_writer_reader_roundtrip() {
	c01WriteRead(c01Domain{format: "csvlite", forbidden: ",\"\n\r", hetero: true})
}

// CSV (the full reader and writer, quoting on demand): every byte is representable; the only
// excluded content is a CRLF pair inside one field (folded to LF by the reader, as documented).
//verif:opts engine-only maxpaths=300000 unwind=300 tier=thorough
func VerifC01_csv_writer_reader_roundtrip() {
	c01WriteRead(c01Domain{format: "csv"})
}

// XTAB: names free of space and newline, values free of newline and not starting/ending with the
// pair separator's padding
//verif:opts engine-only maxpaths=300000 unwind=300
func VerifC01_xtab_writer_reader_roundtrip() {
	c01WriteRead(c01Domain{format: "xtab", forbidden: "\n ", nameExtra: "", hetero: true, ascii: true})
}

// PPRINT: names and values free of space and newline, values non-empty and not "-" (how an empty
// value is written); heterogeneous streams become blocks with their own header lines
//verif:opts engine-only maxpaths=300000 unwind=400
func VerifC01_pprint_writer_reader_roundtrip() {
	c01WriteRead(c01Domain{format: "pprint", forbidden: "\n ", nonEmpty: true, hetero: true, ascii: true})
}
