//go:build verif

package input

// C01 (writer/reader option variants) — the whole writer -> whole reader round trip of
// zz_verif_C01.go under the option variants the statement names: custom separators, quote-all,
// headerless output read back with an implicit header, barred and right-aligned PPRINT, NIDX and
// markdown.  The variant is given as main-flags and parsed by the real cli.FLAG_TABLE, so the
// "was specified" bookkeeping Finalize*Options depends on is the real one.

import (
	"bufio"
	"bytes"

	"github.com/johnkerl/miller/v6/pkg/cli"
	"github.com/johnkerl/miller/v6/pkg/mlrval"
	"github.com/johnkerl/miller/v6/pkg/output"
	"github.com/johnkerl/miller/v6/pkg/types"
)

// TSV with CRLF line endings (the TSV writer refuses any other OFS than TAB, so the separator is
// not a variant of this format): CR inside a value is escaped, so every byte stays representable
//verif:opts engine-only maxpaths=300000 unwind=300
func VerifC01_tsv_crlf_roundtrip() {
	c01WriteRead(c01Domain{format: "tsv", flags: []string{"--ors", "crlf"}})
}

// CSV-lite with CRLF line endings
//verif:opts engine-only maxpaths=300000 unwind=300
func VerifC01_csvlite_crlf_roundtrip() {
	c01WriteRead(c01Domain{format: "csvlite", forbidden: ",\"\n\r", hetero: true, flags: []string{"--ors", "crlf"}})
}

// DKVP with both separators changed (named alias on one side, literal on the other)
//verif:opts engine-only maxpaths=300000 unwind=300
func VerifC01_dkvp_custom_separators_roundtrip() {
	c01WriteRead(c01Domain{format: "dkvp", forbidden: ";:\n", hetero: true, flags: []string{"--ifs", "semicolon", "--ofs", ";", "--ips", ":", "--ops", "colon"}})
}

// CSV-lite with a custom separator
//verif:opts engine-only maxpaths=300000 unwind=300
func VerifC01_csvlite_custom_separator_roundtrip() {
	c01WriteRead(c01Domain{format: "csvlite", forbidden: ";\"\n\r", hetero: true, flags: []string{"--fs", ";"}})
}

// CSV-lite, headerless output read back with an implicit header: the names are the positions
//verif:opts engine-only maxpaths=300000 unwind=300
func VerifC01_csvlite_headerless_implicit_roundtrip() {
	c01WriteRead(c01Domain{format: "csvlite", forbidden: ",\"\n\r", posNames: true, flags: []string{"--headerless-csv-output", "--implicit-csv-header"}})
}

// TSV, headerless output read back with an implicit header
//verif:opts engine-only maxpaths=300000 unwind=300
func VerifC01_tsv_headerless_implicit_roundtrip() {
	c01WriteRead(c01Domain{format: "tsv", posNames: true, flags: []string{"--headerless-tsv-output", "--implicit-tsv-header"}})
}

// NIDX: positional names, values non-empty and free of whitespace (without --ifs the NIDX reader
// splits on runs of spaces and tabs, option_parse.go "Special case for Miller 6 upgrade")
//verif:opts engine-only maxpaths=300000 unwind=300
func VerifC01_nidx_writer_reader_roundtrip() {
	c01WriteRead(c01Domain{format: "nidx", forbidden: " \t\n", posNames: true})
}

// NIDX with an explicit separator: split on exactly that separator
//verif:opts engine-only maxpaths=300000 unwind=300
func VerifC01_nidx_custom_separator_roundtrip() {
	c01WriteRead(c01Domain{format: "nidx", forbidden: ";\n", posNames: true, flags: []string{"--ifs", ";", "--ofs", "semicolon"}})
}

// PPRINT, barred output read back as barred input (the barred reader splits lines on "|", so a bar in a
// cell is outside this variant's representable domain, as for markdown)
//verif:opts engine-only maxpaths=300000 unwind=400
func VerifC01_pprint_barred_roundtrip() {
	c01WriteRead(c01Domain{format: "pprint", forbidden: "\n |", nonEmpty: true, hetero: true, ascii: true, flags: []string{"--barred-output", "--barred-input"}})
}

// PPRINT, right-aligned output
//verif:opts engine-only maxpaths=300000 unwind=400
func VerifC01_pprint_right_aligned_roundtrip() {
	c01WriteRead(c01Domain{format: "pprint", forbidden: "\n ", nonEmpty: true, hetero: true, ascii: true, flags: []string{"--right"}})
}

// Markdown: a table per schema; cells free of the bar, space, backslash and newline
//verif:opts engine-only maxpaths=300000 unwind=400
func VerifC01_markdown_writer_reader_roundtrip() {
	c01WriteRead(c01Domain{format: "markdown", forbidden: "|\n \\", nonEmpty: true, ascii: true})
}

// Wide records ("any field count incl. >= 12"): one record of n fields, n over the palette
// {1, 11, 12, 13, 64, 65, 100} (around the key-index threshold and past any positional-name
// cache), written and read back in every line-oriented format; names k1..kn (positions for NIDX and
// the headerless variants), values v1..vn except one symbolic printable byte in the last field,
// followed by a second record of the same shape.
//verif:opts engine-only maxpaths=100000 unwind=2000
func VerifC01_wide_records_roundtrip() {
	verifReplace("github.com/johnkerl/miller/v6/pkg/lib.OpenFileForRead", c05Open)
	type variant struct {
		format   string
		posNames bool
		flags    []string
	}
	vs := []variant{
		{"tsv", false, nil}, {"dkvp", false, nil}, {"csvlite", false, nil}, {"csv", false, nil}, {"xtab", false, nil}, {"pprint", false, nil},
		{"markdown", false, nil}, {"nidx", true, nil}, {"nidx", true, []string{"--ifs", ";", "--ofs", ";"}},
		{"csvlite", true, []string{"--headerless-csv-output", "--implicit-csv-header"}},
		{"pprint", false, []string{"--barred-output", "--barred-input"}},
	}
	v := vs[verifChoice("format", len(vs))]
	n := []int{1, 11, 12, 13, 64, 65, 100}[verifChoice("fields", 7)]
	o := cli.DefaultOptions()
	o.ReaderOptions.InputFileFormat = v.format
	o.WriterOptions.OutputFileFormat = v.format
	for argi := 0; argi < len(v.flags); {
		ok, err := cli.FLAG_TABLE.Parse(v.flags, len(v.flags), &argi, o)
		verifAssert(ok && err == nil, "C01/wide/variant-flags-accepted")
		if !ok || err != nil {
			return
		}
	}
	verifAssert(cli.FinalizeReaderOptions(&o.ReaderOptions) == nil && cli.FinalizeWriterOptions(&o.WriterOptions) == nil, "C01/wide/options")
	last := verifString("last_value", 1)
	verifAssume((last[0] >= 'a' && last[0] <= 'z') || (last[0] >= '0' && last[0] <= '9'))
	itoa := func(i int) string {
		if i < 10 {
			return string(rune('0' + i))
		}
		if i < 100 {
			return string(rune('0'+i/10)) + string(rune('0'+i%10))
		}
		return "100"
	}
	w, err := output.Create(&o.WriterOptions)
	verifAssert(err == nil && w != nil, "C01/wide/writer-created")
	var buf bytes.Buffer
	bw := bufio.NewWriter(&buf)
	ctx := types.NewContext()
	names, values := make([]string, n), make([]string, n)
	for i := 0; i < n; i++ {
		names[i], values[i] = "k"+itoa(i+1), "v"+itoa(i+1)
		if v.posNames {
			names[i] = itoa(i + 1)
		}
	}
	values[n-1] = last
	for r := 0; r < 2; r++ {
		rec := mlrval.NewMlrmapAsRecord()
		for i := 0; i < n; i++ {
			rec.PutReference(names[i], mlrval.FromString(values[i]))
		}
		verifAssert(w.Write(rec, ctx, bw, false) == nil, "C01/wide/write-ok")
	}
	verifAssert(w.Write(nil, ctx, bw, false) == nil, "C01/wide/write-end-ok")
	bw.Flush()
	c05Files = map[string]string{"f": buf.String()}
	rd, err := Create(&o.ReaderOptions, 500)
	verifAssert(err == nil && rd != nil, "C01/wide/reader-created")
	got := c05ReadAll(rd, []string{"f"})
	verifAssert(!got.hadErr, "C01/wide/own-output-is-read-without-error")
	verifAssert(len(got.recs) == 2, "C01/wide/same-number-of-records")
	for _, rac := range got.recs {
		verifAssert(rac.Record.FieldCount == int64(n), "C01/wide/same-number-of-fields")
		pe := rac.Record.Head
		for i := 0; i < n && pe != nil; i++ {
			verifAssert(pe.Key == names[i], "C01/wide/same-names-in-order")
			verifAssert(pe.Value.String() == values[i], "C01/wide/same-value-bytes")
			pe = pe.Next
		}
	}
	verifReach("C01/wide/end")
}
