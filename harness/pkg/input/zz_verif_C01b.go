//go:build verif

package input

// C01 (writer/reader option variants) — the whole writer -> whole reader round trip of
// zz_verif_C01.go under the option variants the statement names: custom separators, quote-all,
// headerless output read back with an implicit header, barred and right-aligned PPRINT, NIDX and
// markdown.  The variant is given as main-flags and parsed by the real cli.FLAG_TABLE, so the
// "was specified" bookkeeping Finalize*Options depends on is the real one.

// TSV with CRLF line endings (the TSV writer refuses any other OFS than TAB, so the separator is
// not a variant of this format): CR inside a value is escaped, so every byte stays representable
//verif:opts engine-only maxpaths=300000 unwind=300
func VerifC01_tsv_crlf_roundtrip() {
	c01WriteRead(c01Domain{format: "tsv", flags: []string{"--ors", "crlf"}})
}

// CSV-lite with CRLF line endings
//verif:opts engine-only maxpaths=300000 unwind=300
func VerifC01_csvlite_crlf_roundtrip() {
	c01WriteRead(c01Domain{format: "csvlite", forbidden: ",\"\n\r", hetero: true, flags: []string{"--ors", "crlf"}})
}

// DKVP with both separators changed (named alias on one side, literal on the other)
//verif:opts engine-only maxpaths=300000 unwind=300
func VerifC01_dkvp_custom_separators_roundtrip() {
	c01WriteRead(c01Domain{format: "dkvp", forbidden: ";:\n", hetero: true, flags: []string{"--ifs", "semicolon", "--ofs", ";", "--ips", ":", "--ops", "colon"}})
}

// CSV-lite with a custom separator
//verif:opts engine-only maxpaths=300000 unwind=300
func VerifC01_csvlite_custom_separator_roundtrip() {
	c01WriteRead(c01Domain{format: "csvlite", forbidden: ";\"\n\r", hetero: true, flags: []string{"--fs", ";"}})
}

// CSV-lite, headerless output read back with an implicit header: the names are the positions
//verif:opts engine-only maxpaths=300000 unwind=300
func VerifC01_csvlite_headerless_implicit_roundtrip() {
	c01WriteRead(c01Domain{format: "csvlite", forbidden: ",\"\n\r", posNames: true, flags: []string{"--headerless-csv-output", "--implicit-csv-header"}})
}

// TSV, headerless output read back with an implicit header
//verif:opts engine-only maxpaths=300000 unwind=300
func VerifC01_tsv_headerless_implicit_roundtrip() {
	c01WriteRead(c01Domain{format: "tsv", posNames: true, flags: []string{"--headerless-tsv-output", "--implicit-tsv-header"}})
}

// CSV with --quote-all (every byte representable but the folded CRLF pair)
//verif:opts engine-only maxpaths=300000 unwind=300 tier=thorough
func VerifC01_csv_quote_all_roundtrip() {
	c01WriteRead(c01Domain{format: "csv", flags: []string{"--quote-all"}})
}

// CSV, headerless output read back with an implicit header
//verif:opts engine-only maxpaths=300000 unwind=300 tier=thorough
func VerifC01_csv_headerless_implicit_roundtrip() {
	c01WriteRead(c01Domain{format: "csv", posNames: true, flags: []string{"--headerless-csv-output", "--implicit-csv-header"}})
}

// NIDX: positional names, values non-empty and free of whitespace (without --ifs the NIDX reader
// splits on runs of spaces and tabs, option_parse.go "Special case for Miller 6 upgrade")
//verif:opts engine-only maxpaths=300000 unwind=300
func VerifC01_nidx_writer_reader_roundtrip() {
	c01WriteRead(c01Domain{format: "nidx", forbidden: " \t\n", posNames: true})
}

// NIDX with an explicit separator: split on exactly that separator
//verif:opts engine-only maxpaths=300000 unwind=300
func VerifC01_nidx_custom_separator_roundtrip() {
	c01WriteRead(c01Domain{format: "nidx", forbidden: ";\n", posNames: true, flags: []string{"--ifs", ";", "--ofs", "semicolon"}})
}

// PPRINT, barred output read back as barred input (the barred reader splits lines on "|", so a bar in a
// cell is outside this variant's representable domain, as for markdown)
//verif:opts engine-only maxpaths=300000 unwind=400
func VerifC01_pprint_barred_roundtrip() {
	c01WriteRead(c01Domain{format: "pprint", forbidden: "\n |", nonEmpty: true, hetero: true, ascii: true, flags: []string{"--barred-output", "--barred-input"}})
}

// PPRINT, right-aligned output
//verif:opts engine-only maxpaths=300000 unwind=400
func VerifC01_pprint_right_aligned_roundtrip() {
	c01WriteRead(c01Domain{format: "pprint", forbidden: "\n ", nonEmpty: true, hetero: true, ascii: true, flags: []string{"--right"}})
}

// Markdown: a table per schema; cells free of the bar, space, backslash and newline
//verif:opts engine-only maxpaths=300000 unwind=400
func VerifC01_markdown_writer_reader_roundtrip() {
	c01WriteRead(c01Domain{format: "markdown", forbidden: "|\n \\", nonEmpty: true, ascii: true})
}
