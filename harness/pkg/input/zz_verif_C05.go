//go:build verif

package input

// C05 (reader half) — inputs concatenate; NR/FNR/FILENAME/FILENUM track the source.
//
// The real record readers (DKVP/NIDX and CSV-lite, explicit and implicit header: Read,
// processHandle, the batch getters, the real line reader over the real bufio.Reader, the real
// channelizedLineReader goroutine, types.Context.UpdateForStartOfFile/UpdateForInputRecord) are
// run over a stubbed lib.OpenFileForRead that serves two in-memory files whose bytes are symbolic
// (each byte: newline, field separator, pair separator or a letter — so the line/field structure,
// blank lines, a missing final newline, an empty file and per-file headers are all covered), with
// the batch size chosen among 1..3.  Metamorphic oracle from the statement: reading [f1, f2] yields
// the records of reading f1 alone followed by those of reading f2 alone, with NR counting 1..N
// across the files, FNR restarting at 1, FILENAME/FILENUM naming the source file.

import (
	"io"
	"strings"

	"github.com/johnkerl/miller/v6/pkg/cli"
	"github.com/johnkerl/miller/v6/pkg/lib"
	"github.com/johnkerl/miller/v6/pkg/types"
)

var c05Files map[string]string

func c05Open(filename string, prepipe string, prepipeIsRaw bool, encoding lib.TFileInputEncoding) (io.ReadCloser, error) {
	return io.NopCloser(strings.NewReader(c05Files[filename])), nil
}

func c05Content(name string, n int, seps string) string {
	s := verifString(name, n)
	for i := 0; i < n; i++ {
		b := s[i]
		ok := b >= 'a' && b <= 'c'
		for k := 0; k < len(seps); k++ {
			ok = ok || b == seps[k]
		}
		verifAssume(ok)
	}
	return s
}

type c05Out struct {
	recs   []*types.RecordAndContext
	hadErr bool
}

func c05ReadAll(reader IRecordReader, names []string) c05Out {
	readerChannel := make(chan []*types.RecordAndContext, 2)
	errorChannel := make(chan error, 16)
	done := make(chan bool, 1)
	ctx := types.NewContext()
	go reader.Read(names, *ctx, readerChannel, errorChannel, done)
	var out c05Out
	for {
		batch := <-readerChannel
		for _, rac := range batch {
			if rac.EndOfStream {
				select {
				case <-errorChannel:
					out.hadErr = true
				default:
				}
				return out
			}
			if rac.Record != nil {
				out.recs = append(out.recs, rac)
			}
		}
	}
}

func c05SameRecord(a, b *types.RecordAndContext) bool {
	pa, pb := a.Record.Head, b.Record.Head
	for pa != nil && pb != nil {
		if pa.Key != pb.Key || pa.Value.String() != pb.Value.String() {
			return false
		}
		pa, pb = pa.Next, pb.Next
	}
	return pa == nil && pb == nil
}

func c05Check(mk func(rpb int64) IRecordReader, n1, n2 int, seps string) {
	verifReplace("github.com/johnkerl/miller/v6/pkg/lib.OpenFileForRead", c05Open)
	rpb := int64(1 + verifChoice("records_per_batch", 3))
	c05Files = map[string]string{
		"f1": c05Content("file1", n1, seps),
		"f2": c05Content("file2", n2, seps),
	}
	both := c05ReadAll(mk(rpb), []string{"f1", "f2"})
	one := c05ReadAll(mk(rpb), []string{"f1"})
	two := c05ReadAll(mk(rpb), []string{"f2"})
	// files that are each readable alone are readable together
	verifAssert(!both.hadErr || one.hadErr || two.hadErr, "C05/inputs-concatenate-no-error-from-reading-them-together")
	if both.hadErr || one.hadErr || two.hadErr {
		// data errors (ragged CSV-lite lines) end the run of the real program; outside this claim
		verifReach("C05/reader/data-error")
		return
	}
	verifAssert(len(both.recs) == len(one.recs)+len(two.recs), "C05/inputs-concatenate-count")
	if len(both.recs) != len(one.recs)+len(two.recs) {
		return
	}
	for i, rac := range both.recs {
		var alone *types.RecordAndContext
		fnr, fname, fnum := int64(0), "", int64(0)
		if i < len(one.recs) {
			alone, fnr, fname, fnum = one.recs[i], int64(i+1), "f1", 1
		} else {
			alone, fnr, fname, fnum = two.recs[i-len(one.recs)], int64(i-len(one.recs)+1), "f2", 2
		}
		verifAssert(c05SameRecord(rac, alone), "C05/inputs-concatenate-records")
		verifAssert(rac.Context.NR == int64(i+1), "C05/NR-counts-across-files")
		verifAssert(rac.Context.FNR == fnr, "C05/FNR-restarts-per-file")
		verifAssert(rac.Context.FILENAME == fname, "C05/FILENAME-names-the-source")
		verifAssert(rac.Context.FILENUM == fnum, "C05/FILENUM-names-the-source")
		verifAssert(alone.Context.NR == fnr && alone.Context.FNR == fnr && alone.Context.FILENUM == 1, "C05/single-file-counters")
	}
	verifReach("C05/reader/end")
}

func c05Len(base int) int {
	if verifTier() > 0 {
		return base + 1
	}
	return base
}

func c05ReaderOptions(format string, implicitHeader bool) *cli.TReaderOptions {
	o := cli.DefaultReaderOptions()
	o.InputFileFormat = format
	o.UseImplicitHeader = implicitHeader
	err := cli.FinalizeReaderOptions(&o)
	verifAssert(err == nil, "C05/options-finalized")
	return &o
}

//verif:opts engine-only maxpaths=60000
func VerifC05_dkvp_two_files() {
	o := c05ReaderOptions("dkvp", false)
	c05Check(func(rpb int64) IRecordReader {
		r, err := NewRecordReaderDKVP(o, rpb)
		verifAssert(err == nil, "C05/reader-created")
		return r
	}, c05Len(3), c05Len(3), "\n=")
}

//verif:opts engine-only maxpaths=60000
func VerifC05_csvlite_two_files() {
	o := c05ReaderOptions("csvlite", false)
	c05Check(func(rpb int64) IRecordReader {
		r, err := NewRecordReaderCSVLite(o, rpb)
		verifAssert(err == nil, "C05/reader-created")
		return r
	}, c05Len(4), 4, "\n,") // thorough: 5 + 4 bytes (5 + 5 exhausted the path budget)
}

//verif:opts engine-only maxpaths=60000
func VerifC05_csvlite_implicit_header_two_files() {
	o := c05ReaderOptions("csvlite", true)
	c05Check(func(rpb int64) IRecordReader {
		r, err := NewRecordReaderCSVLite(o, rpb)
		verifAssert(err == nil, "C05/reader-created")
		return r
	}, c05Len(3), c05Len(3), "\n,")
}

// the full CSV reader and the TSV reader, explicit and implicit header (files of different widths)
//verif:opts engine-only maxpaths=60000
func VerifC05_csv_tsv_two_files() {
	type rc struct {
		format   string
		implicit bool
		seps     string
	}
	c := []rc{{"csv", false, "\n,"}, {"csv", true, "\n,"}, {"tsv", false, "\n\t"}, {"tsv", true, "\n\t"}}[verifChoice("reader", 4)]
	o := c05ReaderOptions(c.format, c.implicit)
	c05Check(func(rpb int64) IRecordReader {
		r, err := Create(o, rpb)
		verifAssert(err == nil, "C05/reader-created")
		return r
	}, 3, 3, c.seps)
}
