// gose: Go SSA symbolic executor.  Loads packages of /repo (with the harness overlay and the
// generated parser), builds SSA, explores the named harness functions and writes a JSON report.
package main

import (
	"encoding/json"
	"flag"
	"fmt"
	"go/types"
	"os"
	"path/filepath"
	"strings"
	"sync"
	"time"

	"gose/interp"

	"golang.org/x/tools/go/packages"
	"golang.org/x/tools/go/ssa"
	"golang.org/x/tools/go/ssa/ssautil"
)

type overlayFlag map[string]string

func (o overlayFlag) String() string { return "" }
func (o overlayFlag) Set(s string) error {
	i := strings.Index(s, "=")
	if i < 0 {
		return fmt.Errorf("overlay must be virtual=real")
	}
	o[s[:i]] = s[i+1:]
	return nil
}

type Report struct {
	Package  string                  `json:"package"`
	Tier     string                  `json:"tier"`
	LoadS    float64                 `json:"load_s"`
	Results  []*interp.HarnessResult `json:"results"`
	Errors   []string                `json:"errors,omitempty"`
	Overlays []string                `json:"overlays"`
}

func main() {
	repo := flag.String("repo", "/repo", "repository root")
	pkgPath := flag.String("pkg", "", "package directory relative to the repo root, e.g. pkg/bifs")
	entries := flag.String("entries", "", "comma-separated harness function names")
	tier := flag.String("tier", "quick", "quick|thorough")
	workers := flag.Int("workers", 4, "path workers")
	out := flag.String("out", "", "JSON report path")
	unwind := flag.Int("unwind", 64, "max symbolic decisions at one branch site per frame")
	maxSteps := flag.Int("maxsteps", 20000000, "max SSA steps per path")
	capMs := flag.Int("solver-cap-ms", 20000, "per-query solver cap")
	maxPaths := flag.Int("maxpaths", 200000, "max paths per harness")
	samples := flag.Int("samples", 6, "path samples kept per harness")
	known := flag.String("known", "", "comma-separated known-finding ids that are active")
	debug := flag.Bool("debug", false, "debug output")
	parallel := flag.Int("parallel", 8, "harnesses explored concurrently")
	ov := overlayFlag{}
	flag.Var(ov, "overlay", "virtual=real (repeatable)")
	flag.Parse()

	t0 := time.Now()
	rep := &Report{Package: *pkgPath, Tier: *tier}
	overlay := map[string][]byte{}
	for v, r := range ov {
		b, err := os.ReadFile(r)
		if err != nil {
			fmt.Fprintln(os.Stderr, "gose: overlay:", err)
			os.Exit(2)
		}
		overlay[v] = b
		rep.Overlays = append(rep.Overlays, v)
	}
	cfg := &packages.Config{Mode: packages.LoadAllSyntax, Dir: *repo, BuildFlags: []string{"-tags=verif"}, Overlay: overlay,
		Env: append(os.Environ(), "GOFLAGS=-mod=mod", "GOPROXY=off", "GOTOOLCHAIN=local")}
	pkgs, err := packages.Load(cfg, "./"+*pkgPath)
	if err != nil {
		fmt.Fprintln(os.Stderr, "gose: load:", err)
		os.Exit(2)
	}
	if packages.PrintErrors(pkgs) > 0 {
		fmt.Fprintln(os.Stderr, "gose: the package does not type-check")
		os.Exit(2)
	}
	prog, spk := ssautil.AllPackages(pkgs, ssa.InstantiateGenerics)
	for _, p := range prog.AllPackages() {
		if p.Pkg.Path() != "github.com/johnkerl/miller/v6/pkg/parsing/parser" {
			p.Build()
		}
	}
	rep.LoadS = time.Since(t0).Seconds()
	main := spk[0]
	kn := map[string]bool{}
	for _, k := range strings.Split(*known, ",") {
		if k != "" {
			kn[k] = true
		}
	}
	abs, _ := filepath.Abs(*repo)
	ecfg := &interp.Config{Tier: 0, Unwind: *unwind, MaxSteps: *maxSteps, SolverCapMs: *capMs, Workers: *workers, MaxPaths: *maxPaths,
		Samples: *samples, Known: kn, RepoRoot: abs, Debug: *debug}
	if *tier == "thorough" {
		ecfg.Tier = 1
	}
	eng := &interp.Engine{Prog: prog, Sizes: &types.StdSizes{WordSize: 8, MaxAlign: 8}, Cfg: ecfg}
	names := strings.Split(*entries, ",")
	resSlots := make([]*interp.HarnessResult, len(names))
	sem := make(chan struct{}, *parallel)
	var wg sync.WaitGroup
	var mu sync.Mutex
	for idx, name := range names {
		if name == "" {
			continue
		}
		parts := strings.Split(name, "@")
		name = parts[0]
		hcfg := *ecfg
		for _, kv := range parts[1:] {
			var k string
			var v int
			if i := strings.Index(kv, "="); i > 0 {
				k = kv[:i]
				fmt.Sscanf(kv[i+1:], "%d", &v)
			}
			switch k {
			case "unwind":
				hcfg.Unwind = v
			case "cap":
				hcfg.SolverCapMs = v
			case "maxpaths":
				hcfg.MaxPaths = v
			case "maxsteps":
				hcfg.MaxSteps = v
			case "workers":
				hcfg.Workers = v
			case "samples":
				hcfg.Samples = v
			}
		}
		fn := main.Func(name)
		if fn == nil {
			rep.Errors = append(rep.Errors, "no such harness: "+name)
			continue
		}
		wg.Add(1)
		go func(idx int, name string, hcfg interp.Config) {
			defer wg.Done()
			sem <- struct{}{}
			defer func() { <-sem }()
			heng := &interp.Engine{Prog: prog, Sizes: eng.Sizes, Cfg: &hcfg}
			res := heng.Explore(fn)
			resSlots[idx] = res
			mu.Lock()
			defer mu.Unlock()
			fmt.Fprintf(os.Stderr, "== %s: paths=%d queries=%d (sat %d unsat %d unknown %d) violations=%d unsupported=%d wall=%.1fs solver=%.1fs\n",
				name, res.Paths, res.Queries, res.Sat, res.Unsat, res.Unknown, len(res.Violations), len(res.Unsupported), res.WallS, res.SolverS)
			for _, v := range res.Violations {
				fmt.Fprintf(os.Stderr, "   %s [%s] x%d %s model=%v\n", v.Kind, v.Label, v.Count, v.Msg, v.Model)
			}
			for u, n := range res.Unsupported {
				fmt.Fprintf(os.Stderr, "   unsupported x%d: %s\n", n, u)
			}
			for u, n := range res.Undischarged {
				fmt.Fprintf(os.Stderr, "   undischarged x%d: %s\n", n, u)
			}
		}(idx, name, hcfg)
	}
	wg.Wait()
	for _, r := range resSlots {
		if r != nil {
			rep.Results = append(rep.Results, r)
		}
	}
	b, _ := json.MarshalIndent(rep, "", " ")
	if *out != "" {
		os.WriteFile(*out, b, 0644)
	} else {
		os.Stdout.Write(b)
	}
	if len(rep.Errors) > 0 {
		for _, e := range rep.Errors {
			fmt.Fprintln(os.Stderr, "gose:", e)
		}
		os.Exit(2)
	}
}
