package interp

// Symbolic scalars (SMT terms) and symbolic strings.

import (
	"fmt"
	"go/token"
	"go/types"
	"math"
	"strings"

	"golang.org/x/tools/go/ssa"
)

func mustDeref(t types.Type) types.Type {
	if p, ok := t.Underlying().(*types.Pointer); ok {
		return p.Elem()
	}
	panic(engineFault{"mustDeref: not a pointer: " + t.String()})
}

type sortKind int

const (
	sBool sortKind = iota
	sBV
	sFP64
)

// symv is a symbolic scalar: a Bool, a bit-vector of the given width, or a float64.
type symv struct {
	sort sortKind
	bits int
	term string
}

func (s *symv) String() string { return "sym<" + s.term + ">" }

func mkBool(t string) *symv       { return &symv{sort: sBool, term: t} }
func mkBV(bits int, t string) *symv { return &symv{sort: sBV, bits: bits, term: t} }
func mkFP(t string) *symv         { return &symv{sort: sFP64, bits: 64, term: t} }

func isSym(v value) bool {
	switch v.(type) {
	case *symv, symstr:
		return true
	}
	return false
}

func basicOf(t types.Type) *types.Basic {
	b, _ := t.Underlying().(*types.Basic)
	return b
}

func intBits(b *types.Basic) (int, bool) { // bits, signed
	switch b.Kind() {
	case types.Int, types.Int64, types.UntypedInt:
		return 64, true
	case types.Int32, types.UntypedRune:
		return 32, true
	case types.Int16:
		return 16, true
	case types.Int8:
		return 8, true
	case types.Uint, types.Uint64, types.Uintptr:
		return 64, false
	case types.Uint32:
		return 32, false
	case types.Uint16:
		return 16, false
	case types.Uint8:
		return 8, false
	}
	return 0, false
}

func bvLit(u uint64, bits int) string {
	if bits < 64 {
		u &= (uint64(1) << uint(bits)) - 1
	}
	return fmt.Sprintf("(_ bv%d %d)", u, bits)
}

func fpLit(f float64) string {
	u := math.Float64bits(f)
	return fmt.Sprintf("(fp #b%01b #b%011b #x%013x)", u>>63, (u>>52)&0x7ff, u&0xfffffffffffff)
}

// valueBitsOf returns the raw bits of a concrete integer value with its width.
func concreteIntBits(v value) (uint64, int, bool) {
	switch x := v.(type) {
	case int:
		return uint64(x), 64, true
	case int64:
		return uint64(x), 64, true
	case int32:
		return uint64(uint32(x)), 32, true
	case int16:
		return uint64(uint16(x)), 16, true
	case int8:
		return uint64(uint8(x)), 8, true
	case uint:
		return uint64(x), 64, true
	case uint64:
		return x, 64, true
	case uintptr:
		return uint64(x), 64, true
	case uint32:
		return uint64(x), 32, true
	case uint16:
		return uint64(x), 16, true
	case uint8:
		return uint64(x), 8, true
	}
	return 0, 0, false
}

// toTermV converts any scalar value (concrete or symbolic) to a term, without static type help.
func toTermV(v value) *symv {
	switch x := v.(type) {
	case *symv:
		return x
	case bool:
		if x {
			return mkBool("true")
		}
		return mkBool("false")
	case float64:
		return mkFP(fpLit(x))
	}
	if u, w, ok := concreteIntBits(v); ok {
		return mkBV(w, bvLit(u, w))
	}
	panic(engineFault{fmt.Sprintf("toTermV: unsupported %T", v)})
}

func toTerm(t types.Type, v value) *symv {
	if s, ok := v.(*symv); ok {
		return s
	}
	return toTermV(v)
}

// intFromBits makes the concrete value of basic integer type b from raw bits.
func intFromBits(b *types.Basic, u uint64) value {
	switch b.Kind() {
	case types.Int, types.UntypedInt:
		return int(int64(u))
	case types.Int64:
		return int64(u)
	case types.Int32, types.UntypedRune:
		return int32(uint32(u))
	case types.Int16:
		return int16(uint16(u))
	case types.Int8:
		return int8(uint8(u))
	case types.Uint:
		return uint(u)
	case types.Uint64:
		return u
	case types.Uintptr:
		return uintptr(u)
	case types.Uint32:
		return uint32(u)
	case types.Uint16:
		return uint16(u)
	case types.Uint8:
		return uint8(u)
	case types.Bool:
		return u != 0
	}
	panic(engineFault{"intFromBits: " + b.String()})
}

func and2(a, b string) string {
	switch {
	case a == "true":
		return b
	case b == "true":
		return a
	case a == "false" || b == "false":
		return "false"
	}
	return "(and " + a + " " + b + ")"
}

func or2(a, b string) string {
	switch {
	case a == "false":
		return b
	case b == "false":
		return a
	case a == "true" || b == "true":
		return "true"
	}
	return "(or " + a + " " + b + ")"
}

func not1(a string) string {
	switch {
	case a == "true":
		return "false"
	case a == "false":
		return "true"
	case strings.HasPrefix(a, "(not ") && balancedTail(a[5:len(a)-1]):
		return a[5 : len(a)-1]
	}
	return "(not " + a + ")"
}

func balancedTail(s string) bool {
	d := 0
	for i := 0; i < len(s); i++ {
		switch s[i] {
		case '(':
			d++
		case ')':
			d--
			if d < 0 {
				return false
			}
			if d == 0 && i != len(s)-1 {
				return false
			}
		case ' ':
			if d == 0 {
				return false
			}
		case '|':
			j := i + 1
			for j < len(s) && s[j] != '|' {
				j++
			}
			i = j
		}
	}
	return d == 0
}

func eqTerm(a, b *symv) string {
	if a.sort == sFP64 {
		return "(fp.eq " + a.term + " " + b.term + ")"
	}
	if a.term == b.term {
		return "true"
	}
	return "(= " + a.term + " " + b.term + ")"
}

func iteTerm(c string, a, b *symv) *symv {
	if c == "true" {
		return a
	}
	if c == "false" {
		return b
	}
	if a.term == b.term {
		return a
	}
	return &symv{sort: a.sort, bits: a.bits, term: "(ite " + c + " " + a.term + " " + b.term + ")"}
}

// symBinop evaluates a binary operator with at least one symbolic scalar operand.
func symBinop(fr *frame, instr *ssa.BinOp, x, y value) value {
	ex := fr.i.ex
	t := instr.X.Type()
	b := basicOf(t)
	if b == nil {
		panic(engineFault{"symBinop on non-basic " + t.String()})
	}
	X := toTerm(t, x)
	var Y *symv
	if instr.Op == token.SHL || instr.Op == token.SHR {
		Y = toTerm(instr.Y.Type(), y)
	} else {
		Y = toTerm(t, y)
	}
	bo := func(s string) *symv { return ex.named(mkBool(s)) }
	switch {
	case b.Info()&types.IsBoolean != 0:
		switch instr.Op {
		case token.EQL:
			return bo("(= " + X.term + " " + Y.term + ")")
		case token.NEQ:
			return bo(not1("(= " + X.term + " " + Y.term + ")"))
		}
	case b.Info()&types.IsInteger != 0:
		bits, signed := intBits(b)
		bv := func(s string) *symv { return ex.named(mkBV(bits, s)) }
		op2 := func(o string) *symv { return bv("(" + o + " " + X.term + " " + Y.term + ")") }
		sg := func(s, u string) string {
			if signed {
				return s
			}
			return u
		}
		switch instr.Op {
		case token.ADD:
			return op2("bvadd")
		case token.SUB:
			return op2("bvsub")
		case token.MUL:
			return op2("bvmul")
		case token.QUO, token.REM:
			zero := bvLit(0, bits)
			ex.implicitAssert(fr, instr.Pos(), "integer divide by zero", not1("(= "+Y.term+" "+zero+")"))
			if instr.Op == token.QUO {
				return op2(sg("bvsdiv", "bvudiv"))
			}
			return op2(sg("bvsrem", "bvurem"))
		case token.AND:
			return op2("bvand")
		case token.OR:
			return op2("bvor")
		case token.XOR:
			return op2("bvxor")
		case token.AND_NOT:
			return bv("(bvand " + X.term + " (bvnot " + Y.term + "))")
		case token.SHL, token.SHR:
			yb := basicOf(instr.Y.Type())
			ybits, ysigned := intBits(yb)
			if ysigned {
				ex.implicitAssert(fr, instr.Pos(), "negative shift amount", "(bvsge "+Y.term+" "+bvLit(0, ybits)+")")
			}
			// saturate the count at the operand width, then resize it to that width
			cnt := "(ite (bvuge " + Y.term + " " + bvLit(uint64(bits), ybits) + ") " + bvLit(uint64(bits), ybits) + " " + Y.term + ")"
			switch {
			case ybits < bits:
				cnt = fmt.Sprintf("((_ zero_extend %d) %s)", bits-ybits, cnt)
			case ybits > bits:
				cnt = fmt.Sprintf("((_ extract %d 0) %s)", bits-1, cnt)
			}
			if bits <= 8 && ybits >= 8 {
				// width 8 cannot hold the literal 8 after extraction only if bits<4; fine for 8/16/32/64
			}
			if instr.Op == token.SHL {
				return bv("(bvshl " + X.term + " " + cnt + ")")
			}
			return bv("(" + sg("bvashr", "bvlshr") + " " + X.term + " " + cnt + ")")
		case token.EQL:
			return bo("(= " + X.term + " " + Y.term + ")")
		case token.NEQ:
			return bo(not1("(= " + X.term + " " + Y.term + ")"))
		case token.LSS:
			return bo("(" + sg("bvslt", "bvult") + " " + X.term + " " + Y.term + ")")
		case token.LEQ:
			return bo("(" + sg("bvsle", "bvule") + " " + X.term + " " + Y.term + ")")
		case token.GTR:
			return bo("(" + sg("bvsgt", "bvugt") + " " + X.term + " " + Y.term + ")")
		case token.GEQ:
			return bo("(" + sg("bvsge", "bvuge") + " " + X.term + " " + Y.term + ")")
		}
	case b.Kind() == types.Float64 || b.Kind() == types.UntypedFloat:
		fp := func(s string) *symv { return ex.named(mkFP(s)) }
		switch instr.Op {
		case token.ADD:
			return fp("(fp.add RNE " + X.term + " " + Y.term + ")")
		case token.SUB:
			return fp("(fp.sub RNE " + X.term + " " + Y.term + ")")
		case token.MUL:
			return fp("(fp.mul RNE " + X.term + " " + Y.term + ")")
		case token.QUO:
			return fp("(fp.div RNE " + X.term + " " + Y.term + ")")
		case token.EQL:
			return bo("(fp.eq " + X.term + " " + Y.term + ")")
		case token.NEQ:
			return bo("(not (fp.eq " + X.term + " " + Y.term + "))")
		case token.LSS:
			return bo("(fp.lt " + X.term + " " + Y.term + ")")
		case token.LEQ:
			return bo("(fp.leq " + X.term + " " + Y.term + ")")
		case token.GTR:
			return bo("(fp.gt " + X.term + " " + Y.term + ")")
		case token.GEQ:
			return bo("(fp.geq " + X.term + " " + Y.term + ")")
		}
	}
	panic(engineFault{fmt.Sprintf("symBinop: unsupported %s on %s", instr.Op, t)})
}

func symUnop(fr *frame, instr *ssa.UnOp, x *symv) value {
	switch instr.Op {
	case token.NOT:
		return mkBool(not1(x.term))
	case token.SUB:
		if x.sort == sFP64 {
			return mkFP("(fp.neg " + x.term + ")")
		}
		return mkBV(x.bits, "(bvneg "+x.term+")")
	case token.XOR:
		return mkBV(x.bits, "(bvnot "+x.term+")")
	}
	panic(engineFault{"symUnop: unsupported " + instr.Op.String()})
}

const minInt64Lit = "#x8000000000000000"

// fpToS64 is the amd64 CVTTSD2SI result: truncation, or 0x8000000000000000 for NaN/out of range.
func fpToS64(x string) string {
	lo := fpLit(-9223372036854775808.0)
	hi := fpLit(9223372036854775808.0)
	return "(ite (and (fp.geq " + x + " " + lo + ") (fp.lt " + x + " " + hi + ")) ((_ fp.to_sbv 64) RTZ " + x + ") " + minInt64Lit + ")"
}

func symConv(fr *frame, tdst, tsrc types.Type, x *symv) value {
	ex := fr.i.ex
	bd, bs := basicOf(tdst), basicOf(tsrc)
	if bd == nil || bs == nil {
		panic(engineFault{"symConv: non-basic " + tsrc.String() + " -> " + tdst.String()})
	}
	if bd.Kind() == types.String && bs.Info()&types.IsInteger != 0 {
		// string(rune) with a symbolic rune: run the real utf8.AppendRune on it.
		return symRuneToString(fr, bs, x)
	}
	switch {
	case bs.Info()&types.IsInteger != 0 && bd.Info()&types.IsInteger != 0:
		sb, ssg := intBits(bs)
		db, _ := intBits(bd)
		switch {
		case db == sb:
			return mkBV(db, x.term)
		case db < sb:
			return ex.named(mkBV(db, fmt.Sprintf("((_ extract %d 0) %s)", db-1, x.term)))
		case ssg:
			return ex.named(mkBV(db, fmt.Sprintf("((_ sign_extend %d) %s)", db-sb, x.term)))
		default:
			return ex.named(mkBV(db, fmt.Sprintf("((_ zero_extend %d) %s)", db-sb, x.term)))
		}
	case bs.Info()&types.IsInteger != 0 && bd.Kind() == types.Float64:
		_, ssg := intBits(bs)
		if ssg {
			return ex.named(mkFP("((_ to_fp 11 53) RNE " + x.term + ")"))
		}
		return ex.named(mkFP("((_ to_fp_unsigned 11 53) RNE " + x.term + ")"))
	case bs.Kind() == types.Float64 && bd.Info()&types.IsInteger != 0:
		db, dsg := intBits(bd)
		ex.noteAssumption("float64→int conversion modelled as amd64 (CVTTSD2SI: 0x8000000000000000 for NaN/out of range)")
		s64 := fpToS64(x.term)
		if !dsg && db == 64 {
			two63 := fpLit(9223372036854775808.0)
			big := "(bvxor " + fpToS64("(fp.sub RNE "+x.term+" "+two63+")") + " " + minInt64Lit + ")"
			return ex.named(mkBV(64, "(ite (fp.lt "+x.term+" "+two63+") "+s64+" "+big+")"))
		}
		if db == 64 {
			return ex.named(mkBV(64, s64))
		}
		return ex.named(mkBV(db, fmt.Sprintf("((_ extract %d 0) %s)", db-1, s64)))
	case bs.Kind() == types.Float64 && bd.Kind() == types.Float64:
		return x
	}
	panic(engineFault{"symConv: unsupported " + tsrc.String() + " -> " + tdst.String()})
}

// ---------------- symbolic strings

// symstr is a string of concrete length whose bytes are uint8 or *symv (8-bit).
type symstr []value

// poisonByte is the content of a string that stands for the formatted text of a symbolic number
// (see the formatting stubs): it may be concatenated, copied and printed, but any computation on
// its bytes or its length ends the path as undecided.
type poisonByte struct{}

func poisonStr() symstr { return symstr{poisonByte{}} }

func hasPoison(s symstr) bool {
	for _, b := range s {
		if _, ok := b.(poisonByte); ok {
			return true
		}
	}
	return false
}

func byteTerm(v value) string {
	if s, ok := v.(*symv); ok {
		return s.term
	}
	if _, ok := v.(poisonByte); ok {
		panic(engineFault{"the formatted text of a symbolic number is used in a computation (formatting is stubbed)"})
	}
	return bvLit(uint64(v.(uint8)), 8)
}

func toSymstr(v value) symstr {
	switch v := v.(type) {
	case symstr:
		return v
	case string:
		r := make(symstr, len(v))
		for i := 0; i < len(v); i++ {
			r[i] = v[i]
		}
		return r
	}
	panic(engineFault{fmt.Sprintf("toSymstr %T", v)})
}

// normStr turns a symstr whose bytes are all concrete into a Go string.
func normStr(s symstr) value {
	for _, b := range s {
		if _, ok := b.(uint8); !ok {
			return s
		}
	}
	bs := make([]byte, len(s))
	for i, b := range s {
		bs[i] = b.(uint8)
	}
	return string(bs)
}

func symstrEqTerm(X, Y symstr) string {
	if len(X) != len(Y) {
		return "false"
	}
	t := "true"
	for i := range X {
		xc, xok := X[i].(uint8)
		yc, yok := Y[i].(uint8)
		if xok && yok {
			if xc != yc {
				return "false"
			}
			continue
		}
		t = and2(t, "(= "+byteTerm(X[i])+" "+byteTerm(Y[i])+")")
	}
	return t
}

// symstrLessTerm: lexicographic X < Y (orEq: X <= Y).
func symstrLessTerm(X, Y symstr, orEq bool) string {
	n := len(X)
	if len(Y) < n {
		n = len(Y)
	}
	// result when the common prefix is equal
	var tail string
	if len(X) < len(Y) || (orEq && len(X) == len(Y)) {
		tail = "true"
	} else {
		tail = "false"
	}
	acc := tail
	for i := n - 1; i >= 0; i-- {
		a, b := byteTerm(X[i]), byteTerm(Y[i])
		acc = "(ite (bvult " + a + " " + b + ") true (ite (bvugt " + a + " " + b + ") false " + acc + "))"
	}
	return acc
}

func symstrBinop(fr *frame, instr *ssa.BinOp, x, y value) value {
	ex := fr.i.ex
	X, Y := toSymstr(x), toSymstr(y)
	var t string
	switch instr.Op {
	case token.ADD:
		return normStr(append(append(symstr{}, X...), Y...))
	case token.EQL:
		t = symstrEqTerm(X, Y)
	case token.NEQ:
		t = not1(symstrEqTerm(X, Y))
	case token.LSS:
		t = symstrLessTerm(X, Y, false)
	case token.LEQ:
		t = symstrLessTerm(X, Y, true)
	case token.GTR:
		t = symstrLessTerm(Y, X, false)
	case token.GEQ:
		t = symstrLessTerm(Y, X, true)
	default:
		panic(engineFault{"symstrBinop: unsupported " + instr.Op.String()})
	}
	if t == "true" {
		return true
	}
	if t == "false" {
		return false
	}
	return ex.named(mkBool(t))
}

func symstrConv(fr *frame, tdst types.Type, s symstr) value {
	switch d := tdst.Underlying().(type) {
	case *types.Slice:
		switch d.Elem().Underlying().(*types.Basic).Kind() {
		case types.Byte:
			return append([]value{}, s...)
		case types.Rune:
			// []rune(s): decode with the real utf8 code
			var out []value
			it := &symstrIter{fr: fr, s: s}
			for {
				t := it.next()
				if !t[0].(bool) {
					break
				}
				out = append(out, t[2])
			}
			return out
		}
	case *types.Basic:
		if d.Kind() == types.String {
			return s
		}
	}
	panic(engineFault{"symstrConv: unsupported -> " + tdst.String()})
}

// range over a string with symbolic bytes: decode each rune with the real
// unicode/utf8.DecodeRuneInString executed symbolically.
type symstrIter struct {
	fr *frame
	s  symstr
	i  int
}

func (it *symstrIter) next() tuple {
	okv := make(tuple, 3)
	if it.i >= len(it.s) {
		okv[0] = false
		return okv
	}
	rest := it.s[it.i:]
	// fast path: leading concrete ASCII byte
	if c, ok := rest[0].(uint8); ok && c < 0x80 {
		okv[0], okv[1], okv[2] = true, it.i, rune(c)
		it.i++
		return okv
	}
	r, n := decodeRuneSym(it.fr, rest)
	okv[0], okv[1], okv[2] = true, it.i, r
	it.i += n
	return okv
}

func decodeRuneSym(fr *frame, s symstr) (value, int) {
	i := fr.i
	pkg := i.prog.ImportedPackage("unicode/utf8")
	if pkg == nil {
		panic(engineFault{"unicode/utf8 not loaded"})
	}
	fn := pkg.Func("DecodeRuneInString")
	res := call(i, fr, token.NoPos, fn, []value{normStr(s)}).(tuple)
	n, ok := res[1].(int)
	if !ok {
		n = int(fr.i.ex.concretize(fr, res[1].(*symv), true, 8))
	}
	return res[0], n
}

func symRuneToString(fr *frame, bs *types.Basic, x *symv) value {
	i := fr.i
	pkg := i.prog.ImportedPackage("unicode/utf8")
	if pkg == nil {
		panic(engineFault{"unicode/utf8 not loaded"})
	}
	sb, ssg := intBits(bs)
	r := x
	switch {
	case sb < 32 && ssg:
		r = mkBV(32, fmt.Sprintf("((_ sign_extend %d) %s)", 32-sb, x.term))
	case sb < 32:
		r = mkBV(32, fmt.Sprintf("((_ zero_extend %d) %s)", 32-sb, x.term))
	case sb > 32:
		// out-of-range values become U+FFFD, as does anything AppendRune rejects
		inr := "(bvult " + x.term + " " + bvLit(0x110000, sb) + ")"
		r = mkBV(32, "(ite "+inr+" ((_ extract 31 0) "+x.term+") "+bvLit(0xFFFD, 32)+")")
	}
	fn := pkg.Func("AppendRune")
	res := call(i, fr, token.NoPos, fn, []value{[]value(nil), fr.i.ex.named(r)}).([]value)
	return normStr(symstr(res))
}

// ---------------- symbolic element pointers

// symptr is &x[idx] for a symbolic idx into a slice/array of scalars.
type symptr struct {
	elems []value
	idx   *symv
}

func idxEq(idx *symv, k int) string {
	return "(= " + idx.term + " " + bvLit(uint64(k), idx.bits) + ")"
}

func (p *symptr) load(fr *frame, t types.Type) value {
	if len(p.elems) == 0 {
		panic(pathAbort{"load from empty symbolic index"})
	}
	n := len(p.elems)
	if p.idx.bits < 31 && n > 1<<uint(p.idx.bits) {
		n = 1 << uint(p.idx.bits) // indices beyond the index type's range are unreachable
	}
	acc := toTermV(p.elems[n-1])
	for k := n - 2; k >= 0; k-- {
		acc = iteTerm(idxEq(p.idx, k), toTermV(p.elems[k]), acc)
	}
	return fr.i.ex.named(acc)
}

func (p *symptr) store(fr *frame, v value) {
	nv := toTermV(v)
	for k := range p.elems {
		if p.idx.bits < 31 && k >= 1<<uint(p.idx.bits) {
			break
		}
		old := toTermV(p.elems[k])
		fr.i.ex.logStore(&p.elems[k])
		p.elems[k] = fr.i.ex.named(iteTerm(idxEq(p.idx, k), nv, old))
	}
}

func isScalarType(t types.Type) bool {
	b := basicOf(t)
	if b == nil {
		return false
	}
	return b.Info()&(types.IsInteger|types.IsBoolean) != 0 || b.Kind() == types.Float64
}
