package interp

// Path exploration by decision-prefix re-execution, N workers, one solver set per worker.

import (
	"fmt"
	"go/token"
	"go/types"
	"os"
	"path/filepath"
	"runtime"
	"runtime/debug"
	"sort"
	"strings"
	"sync"
	"sync/atomic"
	"time"

	"golang.org/x/tools/go/ssa"
)

type Config struct {
	Tier        int // 0 quick, 1 thorough
	Unwind      int // max symbolic decisions at one If of one frame
	MaxSteps    int // SSA instructions per path
	SolverCapMs int
	Workers     int
	MaxPaths    int
	Samples     int // path samples (with model) to keep per harness
	Known       map[string]bool
	RepoRoot    string
	Debug       bool
}

type Violation struct {
	Label     string            `json:"label"`
	Kind      string            `json:"kind"` // assert | panic | blocking-send | deadlock | unwind | explicit-panic
	Pos       string            `json:"pos,omitempty"`
	Msg       string            `json:"msg,omitempty"`
	Model     map[string]string `json:"model"`
	Decisions []int64           `json:"decisions"`
	Events    []string          `json:"events,omitempty"`
	Count     int               `json:"count"`
	Stack     []string          `json:"stack,omitempty"`
}

type PathSample struct {
	Decisions []int64           `json:"decisions"`
	Model     map[string]string `json:"model"`
	Events    []string          `json:"events"`
	End       string            `json:"end"`
}

type HarnessResult struct {
	Harness      string         `json:"harness"`
	Paths        int            `json:"paths"`
	Completed    int            `json:"completed"`
	Ends         map[string]int `json:"ends"`
	Unsupported  map[string]int `json:"unsupported"`
	Violations   []*Violation   `json:"violations"`
	Undischarged map[string]int `json:"undischarged"`
	Reached      map[string]int `json:"reached"`
	Asserts      map[string]int `json:"asserts"`
	Queries      int64          `json:"queries"`
	Sat          int64          `json:"sat"`
	Unsat        int64          `json:"unsat"`
	Unknown      int64          `json:"unknown"`
	SolverErrors int64          `json:"solver_errors"`
	SolverS      float64        `json:"solver_s"`
	PerBackend   map[string]int64 `json:"per_backend"`
	WallS        float64        `json:"wall_s"`
	Steps        int64          `json:"steps"`
	Functions    []string       `json:"functions"`
	Assumptions  []string       `json:"assumptions"`
	Samples      []*PathSample  `json:"samples"`
	Truncated    bool           `json:"truncated"`
	MaxDepth     int            `json:"max_depth"`

	mu        sync.Mutex
	vioByKey  map[string]*Violation
	functions map[string]bool
	assum     map[string]bool
}

var pathSeq int64

type pathAbort struct{ why string }

// engineFault: the engine cannot execute something (unsupported construct); the path is undecided.
type engineFault struct{ msg string }

type undoRec struct {
	addr *value
	old  value
	fn   func()
}

type inputVar struct {
	name string // SMT symbol incl. bars
	key  string // JSON key name!k
	sort sortKind
	bits int
}

// explorer is the per-worker exploration state.
type explorer struct {
	cfg *Config
	sol *solverSet
	res *HarnessResult

	// per path
	prefix   []int64
	pos      int
	taken    []int64
	pathcond []string
	decls    []string
	inputs   []inputVar
	nsym     map[string]int
	ndef     int
	undo     []undoRec
	logging  bool
	steps    int
	events   []string
	obsTerms []string
	pending  [][]int64 // alternatives discovered on this path
	replacements map[string]value
	envmsgs  []*envmsg
	sched    *scheduler
	lastObs  map[string]string
	obsKind  map[string]string
	choices  map[string]string
	spec     int // >0 while a pure region is evaluated speculatively
	allowOpaqueCut bool
	fmtSawSymbolic bool
	chanSeq  int
	condSet  map[string]bool
	prefixKinds []byte
	pathID   int64
	curFn    map[*ssa.Function]bool
	pathAssum map[string]bool
	depth    int
}

func relPos(cfg *Config, fset *token.FileSet, pos token.Pos) string {
	if pos == token.NoPos {
		return ""
	}
	p := fset.Position(pos)
	f := p.Filename
	if cfg != nil && cfg.RepoRoot != "" {
		if r, err := filepath.Rel(cfg.RepoRoot, f); err == nil && !strings.HasPrefix(r, "..") {
			f = r
		}
	}
	if i := strings.Index(f, "/pkg/mod/"); i >= 0 {
		f = f[i+9:]
	}
	return fmt.Sprintf("%s:%d", f, p.Line)
}

func (ex *explorer) noteAssumption(s string) {
	if ex.pathAssum == nil {
		ex.pathAssum = map[string]bool{}
	}
	ex.pathAssum[s] = true
}

func sortStr(s *symv) string {
	switch s.sort {
	case sBool:
		return "Bool"
	case sFP64:
		return "(_ FloatingPoint 11 53)"
	}
	return fmt.Sprintf("(_ BitVec %d)", s.bits)
}

// named gives a long term a name so that terms stay linear in path length.
func (ex *explorer) named(s *symv) *symv {
	if len(s.term) <= 120 {
		return s
	}
	ex.ndef++
	n := fmt.Sprintf("t!%d", ex.ndef)
	ex.decls = append(ex.decls, fmt.Sprintf("(define-fun %s () %s %s)", n, sortStr(s), s.term))
	return &symv{sort: s.sort, bits: s.bits, term: n}
}

func (ex *explorer) fresh(name string, sort sortKind, bits int) *symv {
	if ex.nsym == nil {
		ex.nsym = map[string]int{}
	}
	ex.nsym[name]++
	key := fmt.Sprintf("%s!%d", name, ex.nsym[name])
	sym := "|" + key + "|"
	switch sort {
	case sBool:
		ex.decls = append(ex.decls, fmt.Sprintf("(declare-const %s Bool)", sym))
		ex.inputs = append(ex.inputs, inputVar{sym, key, sBool, 0})
		return mkBool(sym)
	case sFP64:
		ex.decls = append(ex.decls, fmt.Sprintf("(declare-const %s (_ BitVec 64))", sym))
		ex.inputs = append(ex.inputs, inputVar{sym, key, sFP64, 64})
		ex.ndef++
		n := fmt.Sprintf("t!%d", ex.ndef)
		ex.decls = append(ex.decls, fmt.Sprintf("(define-fun %s () (_ FloatingPoint 11 53) ((_ to_fp 11 53) %s))", n, sym))
		return mkFP(n)
	}
	ex.decls = append(ex.decls, fmt.Sprintf("(declare-const %s (_ BitVec %d))", sym, bits))
	ex.inputs = append(ex.inputs, inputVar{sym, key, sBV, bits})
	return mkBV(bits, sym)
}

func (ex *explorer) inputNames() []string {
	r := make([]string, 0, len(ex.inputs)+len(ex.obsTerms))
	for _, in := range ex.inputs {
		r = append(r, in.name)
	}
	r = append(r, ex.obsTerms...)
	return r
}

// resolvedEvents substitutes the model values of observed symbolic terms into the event list.
func (ex *explorer) resolvedEvents() []string {
	out := make([]string, len(ex.events))
	for k, e := range ex.events {
		if strings.Contains(e, "@o!") {
			for name, v := range ex.lastObs {
				if strings.Contains(e, "@"+name) {
					e = replaceWord(e, "@"+name, v)
				}
			}
		}
		out[k] = e
	}
	return out
}

func replaceWord(s, w, v string) string {
	for {
		i := strings.Index(s, w)
		if i < 0 {
			return s
		}
		j := i + len(w)
		if j < len(s) && s[j] >= '0' && s[j] <= '9' {
			// longer name: skip by replacing only exact matches
			k := i + 1
			rest := replaceWord(s[k:], w, v)
			return s[:k] + rest
		}
		s = s[:i] + v + s[j:]
	}
}

func (ex *explorer) modelOf(m map[string]string) map[string]string {
	out := map[string]string{}
	ex.lastObs = map[string]string{}
	for _, o := range ex.obsTerms {
		if v, ok := m[o]; ok {
			if u, ok := modelUint(v); ok {
				switch {
				case v == "true" || v == "false":
					ex.lastObs[o] = v
				case strings.Contains(ex.obsKind[o], "byte"):
					ex.lastObs[o] = fmt.Sprintf("%02x", u)
				default:
					ex.lastObs[o] = fmt.Sprintf("0x%x", u)
				}
			} else {
				ex.lastObs[o] = fpModelBits(v)
			}
		}
	}
	for k, v := range ex.choices {
		out[k] = v
	}
	for _, in := range ex.inputs {
		v, ok := m[strings.Trim(in.name, "|")]
		if !ok {
			continue
		}
		if u, ok := modelUint(v); ok {
			if in.sort == sBool {
				if u != 0 {
					out[in.key] = "true"
				} else {
					out[in.key] = "false"
				}
			} else {
				out[in.key] = fmt.Sprintf("0x%x", u)
			}
		} else {
			out[in.key] = v
		}
	}
	return out
}

// check asks whether pathcond ∧ extra is satisfiable.
func (ex *explorer) check(extra string, wantModel bool) (string, map[string]string) {
	var gv []string
	if wantModel {
		gv = ex.inputNames()
	}
	if extra != "" && !wantModel {
		// syntactic shortcuts: the condition (or its negation) is already on the path
		if ex.condSet[extra] {
			return "sat", nil
		}
		if ex.condSet[not1(extra)] {
			return "unsat", nil
		}
	}
	r, m := ex.sol.checkPath(ex.pathID, ex.decls, ex.pathcond, extra, gv)
	if r == "sat" && wantModel {
		return r, ex.modelOf(m)
	}
	return r, nil
}

func (ex *explorer) addCond(c string) {
	if c == "true" || ex.condSet[c] {
		return
	}
	ex.pathcond = append(ex.pathcond, c)
	ex.condSet[c] = true
}

func (ex *explorer) stack(fr *frame) []string {
	var st []string
	for f := fr; f != nil && len(st) < 12; f = f.caller {
		st = append(st, f.fn.String())
	}
	return st
}

func (ex *explorer) recordViolation(fr *frame, kind, label, pos, msg string, model map[string]string) {
	key := kind + "|" + label
	res := ex.res
	res.mu.Lock()
	defer res.mu.Unlock()
	if v, ok := res.vioByKey[key]; ok {
		v.Count++
		return
	}
	v := &Violation{Label: label, Kind: kind, Pos: pos, Msg: msg, Model: model, Count: 1,
		Decisions: append([]int64{}, ex.taken...), Events: ex.resolvedEvents()}
	if fr != nil {
		v.Stack = ex.stack(fr)
	}
	res.vioByKey[key] = v
	res.Violations = append(res.Violations, v)
}

// implicitAssert: a run-time check of the Go semantics (bounds, nil, division, ...).  If the
// unsafe side is satisfiable it is a panic candidate with a model; the path continues on the safe side.
func (ex *explorer) implicitAssert(fr *frame, pos token.Pos, what string, safe string) {
	if safe == "true" {
		return
	}
	if ex.spec > 0 {
		panic(mergeAbort{})
	}
	p := relPos(ex.cfg, fr.i.prog.Fset, pos)
	if p == "" {
		p = relPos(ex.cfg, fr.i.prog.Fset, fr.fn.Pos()) + "(" + fr.fn.Name() + ")"
	}
	r, m := ex.check(not1(safe), true)
	if r == "sat" {
		ex.recordViolation(fr, "panic", "panic/"+what+"@"+p, p, what, m)
	} else if r != "unsat" {
		ex.res.mu.Lock()
		ex.res.Undischarged["panic/"+what+"@"+p]++
		ex.res.mu.Unlock()
	}
	if safe == "false" {
		panic(pathAbort{"always panics: " + what})
	}
	if r != "unsat" {
		ex.addCond(safe)
	}
}

// targetRuntimePanic: a concrete run-time panic of the target on this path.
type targetRuntimePanic struct {
	what string
	pos  string
}

type mergeAbort struct{}

func (ex *explorer) runtimePanic(fr *frame, pos token.Pos, what string) {
	if ex.spec > 0 {
		panic(mergeAbort{})
	}
	p := relPos(ex.cfg, fr.i.prog.Fset, pos)
	if p == "" {
		p = relPos(ex.cfg, fr.i.prog.Fset, fr.fn.Pos()) + "(" + fr.fn.Name() + ")"
	}
	panic(targetRuntimePanic{what, p})
}

// decide takes the next decision: from the prefix if replaying, else via choose().
func (ex *explorer) replaying() bool { return ex.pos < len(ex.prefix) }

// symBranch decides a branch on a possibly symbolic condition.
func symBranch(fr *frame, c value, site ssa.Instruction) bool {
	switch c := c.(type) {
	case bool:
		return c
	case *symv:
		ex := fr.i.ex
		if c.term == "true" {
			return true
		}
		if c.term == "false" {
			return false
		}
		if ex.spec > 0 {
			panic(mergeAbort{})
		}
		if site != nil {
			if fr.symCount == nil {
				fr.symCount = map[ssa.Instruction]int{}
			}
			fr.symCount[site]++
			if fr.symCount[site] > ex.cfg.Unwind {
				p := relPos(ex.cfg, fr.i.prog.Fset, site.Pos())
				_, m := ex.check("", true)
				ex.recordViolation(fr, "unwind", "unwind@"+p+"("+fr.fn.Name()+")", p, fmt.Sprintf("more than %d symbolic iterations", ex.cfg.Unwind), m)
				panic(pathAbort{"unwind"})
			}
		}
		var dec bool
		if ex.replaying() {
			dec = ex.prefix[ex.pos] != 0
		} else {
			rt, _ := ex.check(c.term, false)
			tOK := rt != "unsat"
			fOK := true
			rf := "sat"
			if tOK {
				rf, _ = ex.check(not1(c.term), false)
				fOK = rf != "unsat"
			}
			if (rt != "sat" && rt != "unsat") || (rf != "sat" && rf != "unsat") {
				// no back end decided the feasibility of this branch within the cap: the path is
				// undecided (exploring a possibly infeasible side could only produce noise)
				where := fr.fn.String()
				for f := fr; f != nil; f = f.caller {
					if fr.i.info(f.fn).repo && !fr.i.info(f.fn).isVerif && !strings.Contains(f.fn.Name(), "Verif") {
						where = f.fn.String()
						break
					}
				}
				panic(engineFault{"solver undecided at a branch in " + where})
			}
			switch {
			case tOK && fOK:
				alt := append(append(make([]int64, 0, len(ex.taken)+1), ex.taken...), 0)
				ex.pending = append(ex.pending, alt)
				dec = true
			case tOK:
				dec = true
			default:
				dec = false
			}
		}
		ex.pos++
		if dec {
			ex.taken = append(ex.taken, 1)
			ex.addCond(c.term)
		} else {
			ex.taken = append(ex.taken, 0)
			ex.addCond(not1(c.term))
		}
		return dec
	}
	panic(engineFault{fmt.Sprintf("symBranch: unexpected %T", c)})
}

// choice forks over n alternatives (harness-level case split, select picks, ...).
func (ex *explorer) choice(n int) int {
	if n <= 1 {
		return 0
	}
	var dec int64
	if ex.replaying() {
		dec = ex.prefix[ex.pos]
	} else {
		for k := n - 1; k >= 1; k-- {
			alt := append(append(make([]int64, 0, len(ex.taken)+1), ex.taken...), int64(k))
			ex.pending = append(ex.pending, alt)
		}
		dec = 0
	}
	ex.pos++
	ex.taken = append(ex.taken, dec)
	return int(dec)
}

// concretize forks over all feasible values of a symbolic integer (at most limit of them).
func (ex *explorer) concretize(fr *frame, s *symv, signed bool, limit int) int64 {
	if s.sort != sBV {
		panic(engineFault{"concretize: not an integer"})
	}
	toInt := func(u uint64) int64 {
		if signed && s.bits < 64 {
			sh := uint(64 - s.bits)
			return int64(u<<sh) >> sh
		}
		return int64(u)
	}
	var dec int64
	if ex.replaying() {
		dec = ex.prefix[ex.pos]
	} else {
		// enumerate feasible values
		ex.ndef++
		probe := fmt.Sprintf("c!%d", ex.ndef)
		ex.decls = append(ex.decls, fmt.Sprintf("(define-fun %s () (_ BitVec %d) %s)", probe, s.bits, s.term))
		var vals []int64
		var block []string
		for len(vals) <= limit {
			as := append(append([]string{}, ex.pathcond...), block...)
			r, m := ex.sol.check(ex.decls, as, []string{probe})
			if r == "unsat" {
				break
			}
			if r != "sat" {
				panic(engineFault{"concretize: solver undecided"})
			}
			u, ok := modelUint(m[probe])
			if !ok {
				panic(engineFault{"concretize: cannot read model value " + m[probe]})
			}
			vals = append(vals, toInt(u))
			block = append(block, "(not (= "+probe+" "+bvLit(u, s.bits)+"))")
		}
		if len(vals) == 0 {
			panic(pathAbort{"infeasible path"})
		}
		if len(vals) > limit {
			panic(engineFault{fmt.Sprintf("concretize: more than %d feasible values at %s", limit, fr.fn.String())})
		}
		sort.Slice(vals, func(a, b int) bool { return vals[a] < vals[b] })
		for _, v := range vals[1:] {
			alt := append(append(make([]int64, 0, len(ex.taken)+1), ex.taken...), v)
			ex.pending = append(ex.pending, alt)
		}
		dec = vals[0]
	}
	ex.pos++
	ex.taken = append(ex.taken, dec)
	ex.addCond("(= " + s.term + " " + bvLit(uint64(dec), s.bits) + ")")
	return dec
}

// concretizeRange forks over the feasible values of s within [lo, hi] (already asserted to lie
// there), testing each candidate with its own small query.
func (ex *explorer) concretizeRange(fr *frame, s *symv, lo, hi int64) int64 {
	var dec int64
	if ex.replaying() {
		dec = ex.prefix[ex.pos]
	} else {
		var vals []int64
		for v := lo; v <= hi; v++ {
			r, _ := ex.check("(= "+s.term+" "+bvLit(uint64(v), s.bits)+")", false)
			if r == "sat" {
				vals = append(vals, v)
			} else if r != "unsat" {
				panic(engineFault{"concretize: solver undecided"})
			}
		}
		if len(vals) == 0 {
			panic(pathAbort{"infeasible path"})
		}
		for _, v := range vals[1:] {
			alt := append(append(make([]int64, 0, len(ex.taken)+1), ex.taken...), v)
			ex.pending = append(ex.pending, alt)
		}
		dec = vals[0]
	}
	ex.pos++
	ex.taken = append(ex.taken, dec)
	ex.addCond("(= " + s.term + " " + bvLit(uint64(dec), s.bits) + ")")
	return dec
}

// tryConcretizeSmall: if s has at most 64 feasible values on this path, all within ±2^16, fork over them.
func (ex *explorer) tryConcretizeSmall(fr *frame, s *symv, signed bool) (v int64, ok bool) {
	if ex.spec > 0 {
		return 0, false
	}
	// the narrow/wide verdict is a recorded (non-forking) decision so that re-execution stays in step
	var isWide bool
	if ex.replaying() {
		isWide = ex.prefix[ex.pos] != 0
	} else if s.bits <= 16 {
		isWide = false // every value of a type this narrow lies within the range
	} else {
		var wide string
		if signed {
			wide = "(or (bvsgt " + s.term + " " + bvLit(65536, s.bits) + ") (bvslt " + s.term + " " + bvLit(uint64(^uint64(65535)), s.bits) + "))"
		} else {
			wide = "(bvugt " + s.term + " " + bvLit(65536, s.bits) + ")"
		}
		r, _ := ex.check(wide, false)
		isWide = r != "unsat"
	}
	ex.pos++
	if isWide {
		ex.taken = append(ex.taken, 1)
		return 0, false
	}
	ex.taken = append(ex.taken, 0)
	defer func() {
		if r := recover(); r != nil {
			if f, isF := r.(engineFault); isF && strings.HasPrefix(f.msg, "concretize:") {
				v, ok = 0, false
				return
			}
			panic(r)
		}
	}()
	return ex.concretize(fr, s, signed, 64), true
}

// ---------------- undo log

func (ex *explorer) logStore(addr *value) {
	if ex.logging {
		ex.undo = append(ex.undo, undoRec{addr: addr, old: *addr})
	}
}

func (ex *explorer) logUndo(fn func()) {
	if ex.logging {
		ex.undo = append(ex.undo, undoRec{fn: fn})
	}
}

func (ex *explorer) rollback() {
	for k := len(ex.undo) - 1; k >= 0; k-- {
		u := ex.undo[k]
		if u.fn != nil {
			u.fn()
		} else {
			*u.addr = u.old
		}
	}
	ex.undo = ex.undo[:0]
}

// ---------------- work queue

type workQueue struct {
	mu      sync.Mutex
	cond    *sync.Cond
	items   [][]int64
	active  int
	done    bool
	started int
	max     int
	trunc   bool
}

func newWorkQueue(max int) *workQueue {
	q := &workQueue{max: max}
	q.cond = sync.NewCond(&q.mu)
	return q
}

func (q *workQueue) push(items [][]int64) {
	q.mu.Lock()
	q.items = append(q.items, items...)
	q.mu.Unlock()
	q.cond.Broadcast()
}

func (q *workQueue) pop() ([]int64, bool) {
	q.mu.Lock()
	defer q.mu.Unlock()
	for {
		if q.done {
			return nil, false
		}
		if len(q.items) > 0 {
			if q.max > 0 && q.started >= q.max {
				q.trunc = true
				q.done = true
				q.cond.Broadcast()
				return nil, false
			}
			it := q.items[len(q.items)-1]
			q.items = q.items[:len(q.items)-1]
			q.active++
			q.started++
			return it, true
		}
		if q.active == 0 {
			q.done = true
			q.cond.Broadcast()
			return nil, false
		}
		q.cond.Wait()
	}
}

func (q *workQueue) finish() {
	q.mu.Lock()
	q.active--
	q.mu.Unlock()
	q.cond.Broadcast()
}

// ---------------- driver

// Engine holds what is shared between harness runs: the program and the type sizes.
type Engine struct {
	Prog  *ssa.Program
	Sizes types.Sizes
	Cfg   *Config
}

func (e *Engine) newInterp(res *HarnessResult) *interpreter {
	i := &interpreter{prog: e.Prog, globals: make(map[*ssa.Global]*value), sizes: e.Sizes, goroutines: 1}
	if os.Getenv("GOSE_TRACE") != "" {
		i.mode |= EnableTracing
	}
	if rp := e.Prog.ImportedPackage("runtime"); rp != nil {
		i.runtimeErrorString = rp.Type("errorString").Object().Type()
	}
	initReflect(i)
	i.inited = map[*ssa.Package]bool{}
	i.fninfo = map[*ssa.Function]*fnInfo{}
	i.ex = &explorer{cfg: e.Cfg, res: res}
	return i
}

func (i *interpreter) globalCell(g *ssa.Global) *value {
	if r, ok := i.globals[g]; ok {
		return r
	}
	cell := zero(mustDeref(g.Type()))
	r := &cell
	i.globals[g] = r
	return r
}

func newResult(name string) *HarnessResult {
	return &HarnessResult{Harness: name, Ends: map[string]int{}, Unsupported: map[string]int{}, Undischarged: map[string]int{},
		Reached: map[string]int{}, Asserts: map[string]int{}, PerBackend: map[string]int64{},
		vioByKey: map[string]*Violation{}, functions: map[string]bool{}, assum: map[string]bool{}}
}

// Explore runs one harness function over all its paths.
func (e *Engine) Explore(harness *ssa.Function) *HarnessResult {
	t0 := time.Now()
	res := newResult(harness.Name())
	q := newWorkQueue(e.Cfg.MaxPaths)
	q.push([][]int64{{}})
	nw := e.Cfg.Workers
	if nw < 1 {
		nw = 1
	}
	var wg sync.WaitGroup
	for w := 0; w < nw; w++ {
		wg.Add(1)
		go func(w int) {
			defer wg.Done()
			var i *interpreter
			for {
				pre, ok := q.pop()
				if !ok {
					break
				}
				if i == nil {
					i = e.newInterp(res)
					i.ex.sol = newSolverSet(e.Cfg.SolverCapMs)
				}
				pend := i.runPath(harness, pre)
				q.push(pend)
				q.finish()
			}
			if i != nil {
				s := i.ex.sol
				res.mu.Lock()
				res.Queries += s.Queries
				res.Sat += s.Sat
				res.Unsat += s.Unsat
				res.Unknown += s.Unknown
				res.SolverErrors += s.Errors
				res.SolverS += s.Time.Seconds()
				for k, v := range s.PerBack {
					res.PerBackend[k] += v
				}
				res.mu.Unlock()
				s.close()
			}
		}(w)
	}
	wg.Wait()
	res.Truncated = q.trunc
	res.WallS = time.Since(t0).Seconds()
	for f := range res.functions {
		res.Functions = append(res.Functions, f)
	}
	sort.Strings(res.Functions)
	for a := range res.assum {
		res.Assumptions = append(res.Assumptions, a)
	}
	sort.Strings(res.Assumptions)
	sort.Slice(res.Violations, func(a, b int) bool { return res.Violations[a].Label < res.Violations[b].Label })
	return res
}

func (i *interpreter) runPath(harness *ssa.Function, prefix []int64) (pending [][]int64) {
	ex := i.ex
	ex.prefix, ex.pos, ex.taken, ex.pathcond = prefix, 0, nil, nil
	ex.decls, ex.inputs, ex.nsym, ex.ndef = nil, nil, nil, 0
	ex.steps, ex.events, ex.obsTerms, ex.pending = 0, nil, nil, nil
	ex.spec = 0
	ex.allowOpaqueCut = false
	ex.chanSeq = 0
	ex.condSet = map[string]bool{}
	ex.pathID = atomic.AddInt64(&pathSeq, 1)
	ex.replacements = map[string]value{}
	ex.lastObs, ex.obsKind, ex.choices = nil, map[string]string{}, map[string]string{}
	ex.envmsgs = nil
	ex.sched = nil
	ex.curFn = map[*ssa.Function]bool{}
	ex.pathAssum = nil
	i.spawnSync, i.preemptAfterSend, i.preemptsLeft = false, false, 0 // harness opt-ins never leak into the next path
	ex.logging = true
	end := "ok"
	unsupported := ""
	func() {
		defer func() {
			r := recover()
			if r == nil {
				return
			}
			switch p := r.(type) {
			case pathAbort:
				end = "abort: " + p.why
			case exitPanic:
				end = fmt.Sprintf("exit(%d)", int(p))
				ex.events = append(ex.events, fmt.Sprintf("EXIT:%d", int(p)))
			case targetPanic:
				end = "panic"
				_, m := ex.check("", true)
				msg := panicText(i, p.v)
				ex.recordViolation(nil, "explicit-panic", "panic/explicit: "+truncate(msg, 100), "", msg, m)
			case targetRuntimePanic:
				end = "panic"
				_, m := ex.check("", true)
				ex.recordViolation(nil, "panic", "panic/"+p.what+"@"+p.pos, p.pos, p.what, m)
			case engineFault:
				if ex.allowOpaqueCut && strings.Contains(p.msg, "formatted text of a symbolic number") {
					end = "abort: cut (text of a symbolic number inspected)"
					break
				}
				end = "unsupported"
				unsupported = p.msg
			default:
				if ex.allowOpaqueCut && strings.Contains(fmt.Sprint(r), "poisonByte") {
					end = "abort: cut (text of a symbolic number inspected)"
					break
				}
				end = "unsupported"
				unsupported = fmt.Sprintf("engine panic: %v", r)
				if ex.cfg.Debug {
					fmt.Fprintf(os.Stderr, "gose: engine panic on path %v: %v\n%s\n", ex.taken, r, debug.Stack())
				}
			}
		}()
		call(i, nil, token.NoPos, harness, nil)
	}()
	ex.logging = false
	ex.shutdownSched()
	ex.rollback()
	res := ex.res
	res.mu.Lock()
	res.Paths++
	key := end
	if strings.HasPrefix(end, "abort: ") || end == "ok" || strings.HasPrefix(end, "exit(") {
		res.Completed++
	}
	res.Ends[key]++
	if unsupported != "" {
		ctx := ""
		for _, e := range ex.events {
			if strings.HasPrefix(e, "O:fn=hex:") {
				ctx = " [fn=" + hexEventText(e[len("O:fn=hex:"):]) + "]"
			}
		}
		res.Unsupported[truncate(unsupported, 300)+ctx]++
	}
	res.Steps += int64(ex.steps)
	if len(ex.taken) > res.MaxDepth {
		res.MaxDepth = len(ex.taken)
	}
	for f := range ex.curFn {
		res.functions[f.String()] = true
	}
	for a := range ex.pathAssum {
		res.assum[a] = true
	}
	wantSample := len(res.Samples) < ex.cfg.Samples && (end == "ok" || strings.HasPrefix(end, "exit("))
	if wantSample {
		res.Samples = append(res.Samples, nil) // reserve
	}
	res.mu.Unlock()
	if wantSample {
		_, m := ex.check("", true)
		s := &PathSample{Decisions: append([]int64{}, ex.taken...), Model: m, Events: ex.resolvedEvents(), End: end}
		res.mu.Lock()
		for k := range res.Samples {
			if res.Samples[k] == nil {
				res.Samples[k] = s
				break
			}
		}
		res.mu.Unlock()
	}
	if ex.cfg.Debug {
		fmt.Fprintf(os.Stderr, "gose: path %v end=%s steps=%d %s\n", ex.taken, end, ex.steps, unsupported)
	}
	_ = runtime.NumGoroutine
	return ex.pending
}

func truncate(s string, n int) string {
	if len(s) > n {
		return s[:n] + "…"
	}
	return s
}

// panicText renders the value passed to panic().
func panicText(i *interpreter, v value) string {
	defer func() { recover() }()
	if it, ok := v.(iface); ok {
		switch x := it.v.(type) {
		case string:
			return x
		}
		if it.t != nil {
			// error or Stringer
			for _, m := range []string{"Error", "String"} {
				if obj, _, _ := types.LookupFieldOrMethod(it.t, true, nil, m); obj != nil {
					if f, ok := obj.(*types.Func); ok {
						if fn := i.prog.LookupMethod(it.t, f.Pkg(), f.Name()); fn != nil {
							r := call(i, nil, token.NoPos, fn, []value{it.v})
							if s, ok := r.(string); ok {
								return s
							}
						}
					}
				}
			}
		}
	}
	return toString(v)
}

// fpModelBits renders an FP model value such as (fp #b0 #b... #x...) as f<16 hex digits>.
func fpModelBits(v string) string {
	toks := tokenizeSexp(v)
	if len(toks) >= 5 && toks[0] == "(" && toks[1] == "fp" {
		s, _ := modelUint(toks[2])
		e, _ := modelUint(toks[3])
		m, _ := modelUint(toks[4])
		return fmt.Sprintf("f%016x", s<<63|e<<52|m)
	}
	switch {
	case strings.Contains(v, "+zero"):
		return "f0000000000000000"
	case strings.Contains(v, "-zero"):
		return "f8000000000000000"
	case strings.Contains(v, "+oo"):
		return "f7ff0000000000000"
	case strings.Contains(v, "-oo"):
		return "ffff0000000000000"
	case strings.Contains(v, "NaN"):
		return "fNaN"
	}
	return "f?" + v
}

func hexEventText(h string) string {
	var b []byte
	for _, p := range strings.Split(h, ",") {
		var v int
		if _, err := fmt.Sscanf(p, "%02x", &v); err == nil {
			b = append(b, byte(v))
		}
	}
	return string(b)
}
