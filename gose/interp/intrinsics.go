package interp

// The harness API: functions named verif* declared by the generated shim zz_verif_rt.go in the
// package under analysis.  Under gose they are intercepted by name; compiled natively (replay)
// the shim reads the same values from a JSON file.

import (
	"fmt"
	"math/bits"
	"go/types"
	"os"
	"strings"

	"golang.org/x/tools/go/ssa"
)

func argStr(v value) string {
	switch s := v.(type) {
	case string:
		return s
	case symstr:
		if c, ok := normStr(s).(string); ok {
			return c
		}
	}
	panic(engineFault{fmt.Sprintf("intrinsic: expected concrete string, got %T", v)})
}

func argInt(v value) int64 {
	if _, ok := v.(*symv); ok {
		panic(engineFault{"intrinsic: expected concrete int"})
	}
	return asInt64(v)
}

func unwrapChan(v value) *symchan {
	switch c := v.(type) {
	case *symchan:
		return c
	case iface:
		return unwrapChan(c.v)
	}
	panic(engineFault{fmt.Sprintf("intrinsic: expected channel, got %T", v)})
}

func (ex *explorer) event(s string) { ex.events = append(ex.events, s) }

func (ex *explorer) observe(label string, v value) {
	switch x := v.(type) {
	case *symv:
		ex.ndef++
		n := fmt.Sprintf("o!%d", ex.ndef)
		ex.decls = append(ex.decls, fmt.Sprintf("(define-fun %s () %s %s)", n, sortStr(x), x.term))
		ex.obsTerms = append(ex.obsTerms, n)
		ex.event("O:" + label + "=@" + n)
	case symstr:
		var parts []string
		for _, b := range x {
			if c, ok := b.(uint8); ok {
				parts = append(parts, fmt.Sprintf("%02x", c))
			} else {
				ex.ndef++
				n := fmt.Sprintf("o!%d", ex.ndef)
				ex.decls = append(ex.decls, fmt.Sprintf("(define-fun %s () (_ BitVec 8) %s)", n, b.(*symv).term))
				ex.obsTerms = append(ex.obsTerms, n)
				ex.obsKind[n] = "byte"
				parts = append(parts, "@"+n)
			}
		}
		ex.event("O:" + label + "=hex:" + strings.Join(parts, ","))
	case string:
		var parts []string
		for i := 0; i < len(x); i++ {
			parts = append(parts, fmt.Sprintf("%02x", x[i]))
		}
		ex.event("O:" + label + "=hex:" + strings.Join(parts, ","))
	case bool:
		ex.event(fmt.Sprintf("O:%s=%v", label, x))
	case float64:
		ex.event(fmt.Sprintf("O:%s=f%016x", label, f64bits(x)))
	default:
		if u, w, ok := concreteIntBits(v); ok {
			_ = w
			ex.event(fmt.Sprintf("O:%s=0x%x", label, u))
		} else {
			ex.event(fmt.Sprintf("O:%s=?%T", label, v))
		}
	}
}

func symIntrinsic(fr *frame, fn *ssa.Function, args []value) (value, bool) {
	ex := fr.i.ex
	switch fn.Name() {
	case "verifInt64":
		return ex.fresh(argStr(args[0]), sBV, 64), true
	case "verifInt":
		return ex.fresh(argStr(args[0]), sBV, 64), true
	case "verifUint64":
		return ex.fresh(argStr(args[0]), sBV, 64), true
	case "verifInt32":
		return ex.fresh(argStr(args[0]), sBV, 32), true
	case "verifByte":
		return ex.fresh(argStr(args[0]), sBV, 8), true
	case "verifBool":
		return ex.fresh(argStr(args[0]), sBool, 0), true
	case "verifFloat64":
		return ex.fresh(argStr(args[0]), sFP64, 64), true
	case "verifString":
		n := int(argInt(args[1]))
		ss := make(symstr, n)
		for k := 0; k < n; k++ {
			ss[k] = ex.fresh(fmt.Sprintf("%s_%d", argStr(args[0]), k), sBV, 8)
		}
		if n == 0 {
			return "", true
		}
		return ss, true
	case "verifBytes":
		n := int(argInt(args[1]))
		ss := make([]value, n)
		for k := 0; k < n; k++ {
			ss[k] = ex.fresh(fmt.Sprintf("%s_%d", argStr(args[0]), k), sBV, 8)
		}
		return ss, true
	case "verifChoice":
		n := int(argInt(args[1]))
		name := argStr(args[0])
		if ex.nsym == nil {
			ex.nsym = map[string]int{}
		}
		ex.nsym[name]++
		key := fmt.Sprintf("%s!%d", name, ex.nsym[name])
		c := ex.choice(n)
		ex.event(fmt.Sprintf("C:%s=%d", key, c))
		ex.choices[key] = fmt.Sprintf("%d", c)
		return c, true
	case "verifAssume":
		switch c := args[0].(type) {
		case bool:
			if !c {
				panic(pathAbort{"assume false"})
			}
		case *symv:
			ex.addCond(c.term)
			if !ex.replaying() {
				if r, _ := ex.check("", false); r == "unsat" {
					panic(pathAbort{"assume infeasible"})
				}
			}
		}
		return nil, true
	case "verifAssert":
		label := argStr(args[1])
		ex.res.mu.Lock()
		ex.res.Asserts[label]++
		ex.res.mu.Unlock()
		switch c := args[0].(type) {
		case bool:
			if !c {
				r, m := ex.check("", true)
				switch r {
				case "sat":
					ex.recordViolation(fr, "assert", label, relPos(ex.cfg, fr.i.prog.Fset, fr.caller.callPos()), "concrete false on path", m)
				case "unsat":
					panic(pathAbort{"infeasible path"})
				default:
					// the path's feasibility is undecided: neither a violation nor a pass
					ex.res.mu.Lock()
					ex.res.Undischarged[label]++
					ex.res.mu.Unlock()
				}
			}
		case *symv:
			r, m := ex.check(not1(c.term), true)
			if r == "sat" {
				ex.recordViolation(fr, "assert", label, "", "", m)
			} else if r != "unsat" {
				ex.res.mu.Lock()
				ex.res.Undischarged[label]++
				ex.res.mu.Unlock()
			}
			if r != "unsat" {
				ex.addCond(c.term)
				if r == "sat" {
					if r2, _ := ex.check("", false); r2 == "unsat" {
						panic(pathAbort{"assert fails on whole path"})
					}
				}
			}
		}
		return nil, true
	case "verifReach":
		l := argStr(args[0])
		ex.res.mu.Lock()
		ex.res.Reached[l]++
		ex.res.mu.Unlock()
		ex.event("R:" + l)
		return nil, true
	case "verifObserveInt", "verifObserveBool", "verifObserveStr", "verifObserveFloat":
		ex.observe(argStr(args[0]), args[1])
		return nil, true
	case "verifMulFits":
		// spec: does the exact (128-bit) product of two int64 fit in int64?
		if allConcrete(args) {
			a, b := args[0].(int64), args[1].(int64)
			hi, lo := mulS128(a, b)
			return (hi == 0 && lo>>63 == 0) || (hi == ^uint64(0) && lo>>63 == 1), true
		}
		a, b := toTermV(args[0]), toTermV(args[1])
		p := "(bvmul ((_ sign_extend 64) " + a.term + ") ((_ sign_extend 64) " + b.term + "))"
		return ex.named(mkBool("(= " + p + " ((_ sign_extend 64) ((_ extract 63 0) " + p + ")))")), true
	case "verifMulMod":
		// spec: (a*b) mod m on uint64 with a 128-bit intermediate product, m != 0
		a, b, m := toTermV(args[0]), toTermV(args[1]), toTermV(args[2])
		p := "(bvmul ((_ zero_extend 64) " + a.term + ") ((_ zero_extend 64) " + b.term + "))"
		r := "((_ extract 63 0) (bvurem " + p + " ((_ zero_extend 64) " + m.term + ")))"
		if allConcrete(args) {
			return mulModU(args[0].(uint64), args[1].(uint64), args[2].(uint64)), true
		}
		return ex.named(mkBV(64, r)), true
	case "verifTier":
		return ex.cfg.Tier, true
	case "verifEngine":
		return true, true
	case "verifKnown":
		return ex.cfg.Known[argStr(args[0])], true
	case "verifStop":
		panic(pathAbort{"stop"})
	case "verifConcretize":
		if s, ok := args[0].(*symv); ok {
			return ex.concretize(fr, s, true, int(argInt(args[1]))), true
		}
		return args[0], true
	case "verifConcretizeStr":
		switch s := args[0].(type) {
		case string:
			return s, true
		case symstr:
			out := make([]byte, len(s))
			for k, b := range s {
				if c, ok := b.(uint8); ok {
					out[k] = c
				} else {
					out[k] = byte(ex.concretize(fr, b.(*symv), false, int(argInt(args[1]))))
				}
			}
			return string(out), true
		}
	case "verifReplace":
		ex.replacements[argStr(args[0])] = args[1].(iface).v
		return nil, true
	case "verifChanName":
		unwrapChan(args[0]).name = argStr(args[1])
		return nil, true
	case "verifChanMaybe":
		ch := unwrapChan(args[0])
		ch.envPending = append(ch.envPending, unwrapFor(ch, args[1]))
		return nil, true
	case "verifEnvSend":
		ch := unwrapChan(args[0])
		m := &envmsg{ch: ch, v: unwrapFor(ch, args[1]), name: argStr(args[2]), after: argStr(args[3])}
		ex.envmsgs = append(ex.envmsgs, m)
		return nil, true
	case "verifChanDrain":
		unwrapChan(args[0]).envDrain = true
		return nil, true
	case "verifChanDrained":
		return len(unwrapChan(args[0]).drained), true
	case "verifChanSeq":
		return unwrapChan(args[0]).lastSeq, true
	case "verifChanSends":
		return unwrapChan(args[0]).sends, true
	case "verifYield":
		for ex.yield(fr) {
		}
		return nil, true
	case "verifLive":
		return ex.liveGoroutines(), true
	case "verifSpawnSync":
		fr.i.spawnSync = args[0].(bool)
		return nil, true
	case "verifPreemptAfterSend":
		fr.i.preemptAfterSend = args[0].(bool)
		fr.i.preemptsLeft = 2
		return nil, true
	case "verifCatch":
		// run f; 0 = returned, 1 = os.Exit, 2 = panic
		code := 0
		func() {
			defer func() {
				if r := recover(); r != nil {
					switch p := r.(type) {
					case exitPanic:
						code = 1
						ex.event(fmt.Sprintf("EXIT:%d", int(p)))
						fr.i.lastExit = int(p)
					case targetPanic, targetRuntimePanic:
						code = 2
					default:
						panic(r)
					}
				}
			}()
			call(fr.i, fr, fr.callPos(), args[0], nil)
		}()
		return code, true
	case "verifLastExit":
		return fr.i.lastExit, true
	case "verifAllowOpaqueCut":
		ex.allowOpaqueCut = true
		ex.noteAssumption("cut: paths on which the TEXT of a symbolic number is inspected end there (outside the claim)")
		return nil, true
	case "verifNote":
		ex.noteAssumption(argStr(args[0]))
		return nil, true
	case "verifDebug":
		if os.Getenv("GOSE_DEBUG") != "" {
			fmt.Fprintf(os.Stderr, "verifDebug: %s %v\n", argStr(args[0]), args[1:])
		}
		return nil, true
	}
	return nil, false
}

// unwrapFor removes the interface wrapper of v unless the channel carries interfaces.
func unwrapFor(ch *symchan, v value) value {
	if _, isIface := ch.elem.Underlying().(*types.Interface); isIface {
		return v
	}
	if it, ok := v.(iface); ok {
		return it.v
	}
	return v
}

func mulS128(a, b int64) (hi, lo uint64) {
	hi, lo = bits.Mul64(uint64(a), uint64(b))
	if a < 0 {
		hi -= uint64(b)
	}
	if b < 0 {
		hi -= uint64(a)
	}
	return
}

func mulModU(a, b, m uint64) uint64 {
	hi, lo := bits.Mul64(a, b)
	_, r := bits.Div64(hi%m, lo, m)
	return r
}
