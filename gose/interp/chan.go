package interp

// Channels as bounded FIFO heap objects, environment messages with symbolic arrival, select with
// symbolic picks, and goroutines as coroutines handing a single baton back and forth.

import (
	"fmt"
	"go/token"
	"go/types"

	"golang.org/x/tools/go/ssa"
)

type symchan struct {
	capacity   int
	buf        []value
	closed     bool
	envPending []value // messages the environment may deliver at any later poll (symbolic arrival)
	name, pos  string
	sends      int
	recvs      int
	elem       types.Type
	envDrain   bool // the environment always accepts sends (they are recorded in drained)
	drained    []value
	lastSeq    int // global sequence number of the last successful send (0 = none)
}

func (ch *symchan) label() string {
	if ch.name != "" {
		return ch.name
	}
	return "chan@" + ch.pos
}

type envmsg struct {
	ch          *symchan
	v           value
	name, after string
	sent        bool
}

func (ex *explorer) envSent(name string) bool {
	if name == "" {
		return true
	}
	for _, m := range ex.envmsgs {
		if m.name == name {
			return m.sent
		}
	}
	return true
}

// envStep lets the environment make progress: each deliverable message may be sent now (symbolic).
func envStep(fr *frame) {
	ex := fr.i.ex
	for _, m := range ex.envmsgs {
		if !m.sent && ex.envSent(m.after) && len(m.ch.buf) < m.ch.capacity {
			if symBranch(fr, ex.fresh("envsend_"+m.name, sBool, 0), nil) {
				m.ch.buf = append(m.ch.buf, m.v)
				m.sent = true
				ex.bump()
			}
		}
	}
}

func (ex *explorer) envPendingAny() bool {
	for _, m := range ex.envmsgs {
		if !m.sent {
			return true
		}
	}
	return false
}

func (ex *explorer) bump() {
	if ex.sched != nil {
		ex.sched.epoch++
	}
}

// trySend attempts a send without blocking.
func trySend(fr *frame, ch *symchan, v value) bool {
	ex := fr.i.ex
	if ch == nil {
		return false
	}
	if ch.closed {
		ex.runtimePanic(fr, token.NoPos, "send on closed channel")
	}
	if ch.envDrain {
		ch.drained = append(ch.drained, v)
		ch.sends++
		ex.chanSeq++
		ch.lastSeq = ex.chanSeq
		return true
	}
	if len(ch.buf) < ch.capacity {
		ch.buf = append(ch.buf, v)
		ch.sends++
		ex.chanSeq++
		ch.lastSeq = ex.chanSeq
		ex.bump()
		return true
	}
	// unbuffered channels: a send succeeds only if a receiver is parked; coroutine receivers
	// retry, so model capacity-0 channels as rendezvous through a one-slot hand-off that is
	// only usable when some coroutine is blocked receiving on it.
	if ch.capacity == 0 && ex.sched != nil && ex.sched.receiverParked(ch) {
		ch.buf = append(ch.buf, v)
		ch.sends++
		ex.bump()
		return true
	}
	return false
}

func symSend(fr *frame, pos token.Pos, ch *symchan, v value) {
	ex := fr.i.ex
	if ch == nil {
		ex.blockedForever(fr, pos, "send on nil channel")
	}
	for {
		if trySend(fr, ch, v) {
			// opt-in preemption point: the sender may lose the processor right after its send
			// completed, while everybody else runs as far as they can (an explored choice)
			if fr.i.preemptAfterSend && fr.i.preemptsLeft > 0 && ex.sched != nil && ex.sched.cur != nil && ex.sched.cur.id != 0 && !ch.envDrain {
				if ex.choice(2) == 1 {
					fr.i.preemptsLeft-- // context bound: at most 2 such preemptions per path
					ex.yield(fr)
				}
			}
			return
		}
		if !ex.yieldBlocked(fr, "send", ch) {
			_, m := ex.check("", true)
			p := relPos(ex.cfg, fr.i.prog.Fset, pos)
			ex.recordViolation(fr, "blocking-send", "blocking-send/"+ch.label()+"@"+p, p,
				fmt.Sprintf("send blocks forever: channel %q (cap %d) is full and no goroutine or environment step can drain it", ch.label(), ch.capacity), m)
			panic(pathAbort{"blocked forever"})
		}
	}
}

func (ex *explorer) blockedForever(fr *frame, pos token.Pos, what string) {
	_, m := ex.check("", true)
	p := relPos(ex.cfg, fr.i.prog.Fset, pos)
	ex.recordViolation(fr, "deadlock", "deadlock/"+what+"@"+p, p, what, m)
	panic(pathAbort{"blocked forever"})
}

// tryRecv attempts a receive without blocking: (value, ok, ready).
func tryRecv(fr *frame, ch *symchan) (value, bool, bool) {
	ex := fr.i.ex
	if ch == nil {
		return nil, false, false
	}
	if len(ch.buf) == 0 && len(ch.envPending) > 0 {
		arrived := ex.fresh("arrived_"+ch.label(), sBool, 0)
		if symBranch(fr, arrived, nil) {
			ch.buf = append(ch.buf, ch.envPending[0])
			ch.envPending = ch.envPending[1:]
		}
	}
	if len(ch.buf) > 0 {
		v := ch.buf[0]
		ch.buf = ch.buf[1:]
		ch.recvs++
		ex.bump()
		return v, true, true
	}
	if ch.closed {
		return zero(ch.elem), false, true
	}
	return nil, false, false
}

func symRecv(fr *frame, instr *ssa.UnOp, ch *symchan) value {
	ex := fr.i.ex
	if ch == nil {
		ex.blockedForever(fr, instr.Pos(), "receive from nil channel")
	}
	for {
		envStep(fr)
		v, ok, ready := tryRecv(fr, ch)
		if ready {
			if instr.CommaOk {
				return tuple{v, ok}
			}
			return v
		}
		if ex.sched != nil {
			ex.sched.parkRecv(ch, true)
		}
		progressed := ex.yieldBlocked(fr, "recv", ch)
		if ex.sched != nil {
			ex.sched.parkRecv(ch, false)
		}
		if !progressed {
			if ex.envPendingAny() || len(ch.envPending) > 0 {
				panic(pathAbort{"stutter"})
			}
			ex.blockedForever(fr, instr.Pos(), "receive blocks forever on "+ch.label())
		}
	}
}

func symClose(fr *frame, ch *symchan) {
	ex := fr.i.ex
	if ch == nil {
		ex.runtimePanic(fr, token.NoPos, "close of nil channel")
	}
	if ch.closed {
		ex.runtimePanic(fr, token.NoPos, "close of closed channel")
	}
	ch.closed = true
	ex.bump()
}

func symSelect(fr *frame, instr *ssa.Select) value {
	ex := fr.i.ex
	mkResult := func(chosen int, recvOk bool, recvVal value) value {
		r := tuple{chosen, recvOk}
		for k, st := range instr.States {
			if st.Dir == types.RecvOnly {
				if k == chosen && recvVal != nil {
					r = append(r, recvVal)
				} else {
					r = append(r, zero(st.Chan.Type().Underlying().(*types.Chan).Elem()))
				}
			}
		}
		return r
	}
	for {
		envStep(fr)
		// materialise environment arrivals on receive channels first
		var ready []int
		for k, st := range instr.States {
			ch, _ := fr.get(st.Chan).(*symchan)
			if ch == nil {
				continue
			}
			if st.Dir == types.RecvOnly {
				if len(ch.buf) == 0 && len(ch.envPending) > 0 {
					arrived := ex.fresh("arrived_"+ch.label(), sBool, 0)
					if symBranch(fr, arrived, nil) {
						ch.buf = append(ch.buf, ch.envPending[0])
						ch.envPending = ch.envPending[1:]
					}
				}
				if len(ch.buf) > 0 || ch.closed {
					ready = append(ready, k)
				}
			} else {
				if ch.closed {
					ex.runtimePanic(fr, instr.Pos(), "send on closed channel")
				}
				if ch.envDrain || len(ch.buf) < ch.capacity || (ch.capacity == 0 && ex.sched != nil && ex.sched.receiverParked(ch)) {
					ready = append(ready, k)
				}
			}
		}
		if len(ready) > 0 {
			// Go picks uniformly at random among the ready cases: every pick is explored.
			chosen := ready[ex.choice(len(ready))]
			st := instr.States[chosen]
			ch := fr.get(st.Chan).(*symchan)
			if st.Dir == types.RecvOnly {
				v, ok, _ := tryRecv(fr, ch)
				return mkResult(chosen, ok, v)
			}
			trySend(fr, ch, fr.get(st.Send))
			return mkResult(chosen, false, nil)
		}
		if !instr.Blocking {
			return mkResult(-1, false, nil)
		}
		if ex.sched != nil {
			for _, st := range instr.States {
				if st.Dir == types.RecvOnly {
					if ch, _ := fr.get(st.Chan).(*symchan); ch != nil {
						ex.sched.parkRecv(ch, true)
					}
				}
			}
		}
		progressed := ex.yieldBlocked(fr, "select", nil)
		if ex.sched != nil {
			for _, st := range instr.States {
				if st.Dir == types.RecvOnly {
					if ch, _ := fr.get(st.Chan).(*symchan); ch != nil {
						ex.sched.parkRecv(ch, false)
					}
				}
			}
		}
		if !progressed {
			if ex.envPendingAny() {
				// the select simply waits until some message arrives: that is the sibling path
				panic(pathAbort{"stutter"})
			}
			ex.blockedForever(fr, instr.Pos(), "blocking select with nothing ready and nothing pending")
		}
	}
}

// ---------------- coroutines

type coroutine struct {
	id        int
	resume    chan struct{}
	done      bool
	lastEpoch int
	blocked   bool
	name      string
}

type scheduler struct {
	all     []*coroutine
	cur     *coroutine
	epoch   int
	fault   any
	abort   bool
	parked  map[*symchan]int
	exited  chan struct{}
	live    int
	trace   []string
}

func (s *scheduler) receiverParked(ch *symchan) bool { return s.parked[ch] > 0 }

func (s *scheduler) parkRecv(ch *symchan, on bool) {
	if on {
		s.parked[ch]++
		if ch.capacity == 0 { // only a rendezvous channel becomes sendable because a receiver parked
			s.epoch++
		}
	} else {
		s.parked[ch]--
	}
}

func (ex *explorer) ensureSched() *scheduler {
	if ex.sched == nil {
		main := &coroutine{id: 0, resume: make(chan struct{}), name: "main"}
		ex.sched = &scheduler{all: []*coroutine{main}, cur: main, parked: map[*symchan]int{}, exited: make(chan struct{}, 64)}
	}
	return ex.sched
}

// spawn starts fn(args) as a coroutine; it does not run until the current one blocks or yields.
func (ex *explorer) spawn(fr *frame, pos token.Pos, fn value, args []value) {
	s := ex.ensureSched()
	co := &coroutine{id: len(s.all), resume: make(chan struct{}), name: fmt.Sprintf("go#%d", len(s.all))}
	s.all = append(s.all, co)
	s.live++
	i := fr.i
	go func() {
		<-co.resume
		defer func() {
			r := recover()
			co.done = true
			s.live--
			if s.abort {
				s.exited <- struct{}{}
				return
			}
			if r != nil {
				if pa, ok := r.(pathAbort); ok && pa.why == "goexit" {
					r = nil
				}
			}
			if r != nil && s.fault == nil {
				s.fault = r
			}
			s.epoch++
			// hand the baton to someone else; this host goroutine ends here
			next := s.pickNext(co)
			if next == nil {
				next = s.all[0]
				if s.fault == nil && !next.done {
					s.fault = pathAbort{"all goroutines done but main is blocked"}
				}
			}
			s.cur = next
			next.resume <- struct{}{}
		}()
		if s.abort {
			panic(pathAbort{"abort"})
		}
		call(i, nil, pos, fn, args)
	}()
}

// pickNext returns the next coroutine that may make progress (round robin after cur), or nil.
func (s *scheduler) pickNext(cur *coroutine) *coroutine {
	if s.fault != nil {
		if !s.all[0].done {
			return s.all[0]
		}
		return nil
	}
	n := len(s.all)
	for d := 1; d <= n; d++ {
		c := s.all[(cur.id+d)%n]
		if c.done || c == cur {
			continue
		}
		if !c.blocked || c.lastEpoch < s.epoch {
			return c
		}
	}
	return nil
}

// yieldBlocked is called when the current goroutine cannot proceed.  It returns true if
// something else ran (so retrying makes sense), false if nothing can make progress.
func (ex *explorer) yieldBlocked(fr *frame, what string, ch *symchan) bool {
	s := ex.sched
	if s == nil {
		return false
	}
	cur := s.cur
	cur.blocked = true
	cur.lastEpoch = s.epoch
	next := s.pickNext(cur)
	if next == nil {
		cur.blocked = false
		return false
	}
	s.switchTo(cur, next)
	cur.blocked = false
	return true
}

// yield lets other runnable goroutines go first (used at the end of the harness to drain).
func (ex *explorer) yield(fr *frame) bool {
	s := ex.sched
	if s == nil {
		return false
	}
	cur := s.cur
	cur.lastEpoch = s.epoch
	cur.blocked = true
	next := s.pickNext(cur)
	cur.blocked = false
	if next == nil {
		return false
	}
	s.switchTo(cur, next)
	return true
}

func (s *scheduler) switchTo(cur, next *coroutine) {
	s.cur = next
	next.resume <- struct{}{}
	<-cur.resume
	if s.abort {
		panic(pathAbort{"abort"})
	}
	if s.fault != nil && cur.id == 0 {
		f := s.fault
		s.fault = nil
		panic(f)
	}
}

// shutdown unwinds coroutines that are still parked when the path ends.
func (ex *explorer) shutdownSched() {
	s := ex.sched
	if s == nil {
		return
	}
	s.abort = true
	for _, c := range s.all[1:] {
		if !c.done {
			c.resume <- struct{}{}
			<-s.exited
		}
	}
	ex.sched = nil
}

// liveGoroutines: number of spawned goroutines that have not finished.
func (ex *explorer) liveGoroutines() int {
	if ex.sched == nil {
		return 0
	}
	return ex.sched.live
}
