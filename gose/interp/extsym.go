package interp

// Environment of the code under analysis: intrinsics with SMT semantics for assembly-backed
// leaves, native calls into the host's compiled standard library for pure functions on concrete
// arguments, contract stubs.  Everything a path used is recorded as an assumption.

import (
	"fmt"
	"go/token"
	"go/types"
	"math"
	"os"
	"reflect"
	"regexp"
	"sort"
	"strconv"
	"strings"
	"unicode"
	"unicode/utf8"
	"unsafe"

	"golang.org/x/tools/go/ssa"
)

// hostval is an opaque host object (e.g. a compiled *regexp.Regexp).
type hostval struct{ v any }

// declined: an external that does not handle these arguments; the SSA body runs instead.
type declined struct{}

type slicedata struct{ s []value }

func f64bits(f float64) uint64 { return math.Float64bits(f) }

func allConcrete(args []value) bool {
	for _, a := range args {
		switch x := a.(type) {
		case *symv, symstr, *symptr:
			return false
		case []value:
			for _, e := range x {
				if isSym(e) {
					return false
				}
			}
		case iface:
			if isSym(x.v) {
				return false
			}
		}
	}
	return true
}

// ---------------- host function bridge

var hostFuncs = map[string]any{
	"strings.ToUpper": strings.ToUpper, "strings.ToLower": strings.ToLower, "strings.TrimSpace": strings.TrimSpace,
	"strings.Repeat": strings.Repeat, "strings.Fields": strings.Fields, "strings.Split": strings.Split,
	"strings.SplitN": strings.SplitN, "strings.Join": strings.Join, "strings.Replace": strings.Replace,
	"strings.ReplaceAll": strings.ReplaceAll, "strings.Title": strings.Title, "strings.EqualFold": strings.EqualFold,
	"strings.TrimLeft": strings.TrimLeft, "strings.TrimRight": strings.TrimRight, "strings.Trim": strings.Trim,
	"strings.TrimPrefix": strings.TrimPrefix, "strings.TrimSuffix": strings.TrimSuffix,
	"strings.HasPrefix": strings.HasPrefix, "strings.HasSuffix": strings.HasSuffix, "strings.Contains": strings.Contains,
	"strings.ContainsAny": strings.ContainsAny, "strings.ContainsRune": strings.ContainsRune,
	"strings.Index": strings.Index, "strings.IndexByte": strings.IndexByte, "strings.IndexAny": strings.IndexAny,
	"strings.IndexRune": strings.IndexRune, "strings.LastIndex": strings.LastIndex, "strings.LastIndexByte": strings.LastIndexByte,
	"strings.Count": strings.Count, "strings.Compare": strings.Compare, "strings.ToValidUTF8": strings.ToValidUTF8,
	"strconv.Itoa": strconv.Itoa, "strconv.FormatInt": strconv.FormatInt, "strconv.FormatUint": strconv.FormatUint,
	"strconv.FormatFloat": strconv.FormatFloat, "strconv.FormatBool": strconv.FormatBool, "strconv.Quote": strconv.Quote,
	"strconv.Unquote": strconv.Unquote, "strconv.Atoi": strconv.Atoi, "strconv.ParseInt": strconv.ParseInt,
	"strconv.ParseUint": strconv.ParseUint, "strconv.ParseFloat": strconv.ParseFloat, "strconv.ParseBool": strconv.ParseBool,
	"strconv.AppendInt": nil, "strconv.QuoteToASCII": strconv.QuoteToASCII,
	"unicode.IsUpper": unicode.IsUpper, "unicode.IsLower": unicode.IsLower, "unicode.IsSpace": unicode.IsSpace,
	"unicode.IsDigit": unicode.IsDigit, "unicode.IsLetter": unicode.IsLetter, "unicode.ToUpper": unicode.ToUpper,
	"unicode.ToLower": unicode.ToLower, "unicode.IsPrint": unicode.IsPrint, "unicode.IsPunct": unicode.IsPunct,
	"unicode.ToTitle": unicode.ToTitle, "unicode.SimpleFold": unicode.SimpleFold, "unicode.IsControl": unicode.IsControl,
	"unicode/utf8.RuneCountInString": utf8.RuneCountInString, "unicode/utf8.ValidString": utf8.ValidString,
	"unicode/utf8.RuneLen": utf8.RuneLen, "unicode/utf8.ValidRune": utf8.ValidRune,
	"math.Pow": math.Pow, "math.Exp": math.Exp, "math.Log": math.Log, "math.Log10": math.Log10, "math.Log2": math.Log2,
	"math.Log1p": math.Log1p, "math.Expm1": math.Expm1, "math.Sin": math.Sin, "math.Cos": math.Cos, "math.Tan": math.Tan,
	"math.Asin": math.Asin, "math.Acos": math.Acos, "math.Atan": math.Atan, "math.Atan2": math.Atan2, "math.Sinh": math.Sinh,
	"math.Cosh": math.Cosh, "math.Tanh": math.Tanh, "math.Asinh": math.Asinh, "math.Acosh": math.Acosh, "math.Atanh": math.Atanh,
	"math.Cbrt": math.Cbrt, "math.Mod": math.Mod, "math.Hypot": math.Hypot, "math.Gamma": math.Gamma, "math.Erf": math.Erf,
	"math.Erfc": math.Erfc, "math.Exp2": math.Exp2, "math.Floor": math.Floor, "math.Ceil": math.Ceil, "math.Trunc": math.Trunc,
	"math.Sqrt": math.Sqrt, "math.Abs": math.Abs, "math.Round": math.Round, "math.RoundToEven": math.RoundToEven,
	"math.Float64bits": math.Float64bits, "math.Float64frombits": math.Float64frombits, "math.Float32bits": math.Float32bits,
	"math.Float32frombits": math.Float32frombits, "math.IsNaN": math.IsNaN, "math.IsInf": math.IsInf, "math.Inf": math.Inf,
	"math.NaN": math.NaN, "math.Ldexp": math.Ldexp, "math.Copysign": math.Copysign, "math.Signbit": math.Signbit,
	"math.Max": math.Max, "math.Min": math.Min, "math.Lgamma": nil, "math.Remainder": math.Remainder,
	"math.archFloor": math.Floor, "math.archCeil": math.Ceil, "math.archTrunc": math.Trunc, "math.archSqrt": math.Sqrt,
	"math.sqrt": math.Sqrt, "math.archExp": math.Exp, "math.archLog": math.Log, "math.archHypot": math.Hypot,
	"math.archMax": math.Max, "math.archMin": math.Min, "math.archModf": nil,
	"regexp.MustCompile": regexp.MustCompile, "regexp.Compile": regexp.Compile, "regexp.QuoteMeta": regexp.QuoteMeta,
	"regexp.MatchString": regexp.MatchString,
}

// functions that have SSA bodies but are called natively when all arguments are concrete
var preferHost = map[string]bool{}

func init() {
	for k, v := range hostFuncs {
		if v == nil {
			delete(hostFuncs, k)
			continue
		}
		if strings.HasPrefix(k, "strings.") || strings.HasPrefix(k, "strconv.") || strings.HasPrefix(k, "unicode") ||
			strings.HasPrefix(k, "regexp.") || strings.HasPrefix(k, "math.") {
			preferHost[k] = true
		}
	}
}

var errorInterface = types.Universe.Lookup("error").Type()

func (i *interpreter) hostError(e error) value {
	if e == nil {
		return iface{}
	}
	// build a real *errors.errorString through the interpreted errors.New
	if pkg := i.prog.ImportedPackage("errors"); pkg != nil {
		if fn := pkg.Func("New"); fn != nil {
			return call(i, nil, token.NoPos, fn, []value{e.Error()})
		}
	}
	return iface{i.runtimeErrorString, e.Error()}
}

func toHost(v value, t reflect.Type) (reflect.Value, bool) {
	switch t.Kind() {
	case reflect.Slice:
		sv, ok := v.([]value)
		if !ok {
			return reflect.Value{}, false
		}
		out := reflect.MakeSlice(t, len(sv), len(sv))
		for k, e := range sv {
			ev, ok := toHost(e, t.Elem())
			if !ok {
				return reflect.Value{}, false
			}
			out.Index(k).Set(ev)
		}
		if sv == nil {
			return reflect.Zero(t), true
		}
		return out, true
	case reflect.Interface:
		if it, ok := v.(iface); ok {
			if it.t == nil {
				return reflect.Zero(t), true
			}
			switch it.v.(type) {
			case bool, int, int8, int16, int32, int64, uint, uint8, uint16, uint32, uint64, uintptr, float32, float64, string:
				return reflect.ValueOf(it.v), true
			}
		}
		return reflect.Value{}, false
	case reflect.Ptr:
		if h, ok := v.(hostval); ok {
			hv := reflect.ValueOf(h.v)
			if hv.Type().AssignableTo(t) {
				return hv, true
			}
		}
		return reflect.Value{}, false
	}
	switch v.(type) {
	case bool, int, int8, int16, int32, int64, uint, uint8, uint16, uint32, uint64, uintptr, float32, float64, string:
		rv := reflect.ValueOf(v)
		if rv.Type().ConvertibleTo(t) && rv.Kind() == t.Kind() {
			return rv.Convert(t), true
		}
	}
	return reflect.Value{}, false
}

func (i *interpreter) fromHost(rv reflect.Value) value {
	switch rv.Kind() {
	case reflect.Bool:
		return rv.Bool()
	case reflect.Int:
		return int(rv.Int())
	case reflect.Int8:
		return int8(rv.Int())
	case reflect.Int16:
		return int16(rv.Int())
	case reflect.Int32:
		return int32(rv.Int())
	case reflect.Int64:
		return rv.Int()
	case reflect.Uint:
		return uint(rv.Uint())
	case reflect.Uint8:
		return uint8(rv.Uint())
	case reflect.Uint16:
		return uint16(rv.Uint())
	case reflect.Uint32:
		return uint32(rv.Uint())
	case reflect.Uint64:
		return rv.Uint()
	case reflect.Uintptr:
		return uintptr(rv.Uint())
	case reflect.Float64:
		return rv.Float()
	case reflect.Float32:
		return float32(rv.Float())
	case reflect.String:
		return rv.String()
	case reflect.Slice:
		if rv.IsNil() {
			return []value(nil)
		}
		out := make([]value, rv.Len())
		for k := range out {
			out[k] = i.fromHost(rv.Index(k))
		}
		return out
	case reflect.Interface:
		if rv.Type().Implements(reflect.TypeOf((*error)(nil)).Elem()) {
			if rv.IsNil() {
				return iface{}
			}
			return i.hostError(rv.Interface().(error))
		}
	case reflect.Ptr:
		if rv.IsNil() {
			return hostval{nil}
		}
		return hostval{rv.Interface()}
	}
	panic(engineFault{"fromHost: unsupported result kind " + rv.Kind().String()})
}

func (i *interpreter) callHost(f any, args []value) (res value, ok bool) {
	fv := reflect.ValueOf(f)
	ft := fv.Type()
	var in []reflect.Value
	n := ft.NumIn()
	if ft.IsVariadic() {
		// last interp arg is a []value of the variadic elements
		if len(args) != n {
			return nil, false
		}
		for k := 0; k < n-1; k++ {
			hv, ok := toHost(args[k], ft.In(k))
			if !ok {
				return nil, false
			}
			in = append(in, hv)
		}
		vs, ok := args[n-1].([]value)
		if !ok {
			return nil, false
		}
		for _, e := range vs {
			hv, ok := toHost(e, ft.In(n-1).Elem())
			if !ok {
				return nil, false
			}
			in = append(in, hv)
		}
	} else {
		if len(args) != n {
			return nil, false
		}
		for k := 0; k < n; k++ {
			hv, ok := toHost(args[k], ft.In(k))
			if !ok {
				return nil, false
			}
			in = append(in, hv)
		}
	}
	var out []reflect.Value
	var pv any
	func() {
		defer func() { pv = recover() }()
		out = fv.Call(in)
	}()
	if pv != nil {
		// a host panic in a library function is the target's panic (e.g. regexp.MustCompile)
		panic(targetPanic{iface{types.Typ[types.String], fmt.Sprint(pv)}})
	}
	switch len(out) {
	case 0:
		return nil, true
	case 1:
		return i.fromHost(out[0]), true
	}
	t := make(tuple, len(out))
	for k := range out {
		t[k] = i.fromHost(out[k])
	}
	return t, true
}

// genericExternal handles functions without an SSA body.
func genericExternal(fr *frame, fi *fnInfo, args []value) (value, bool) {
	if f, ok := hostFuncs[fi.name]; ok && allConcrete(args) {
		if r, ok := fr.i.callHost(f, args); ok {
			return r, true
		}
	}
	return nil, false
}

// hostMethod calls a method on an opaque host object.
func hostMethod(fr *frame, fn *ssa.Function, args []value) (value, bool) {
	h, ok := args[0].(hostval)
	if !ok || h.v == nil {
		return nil, false
	}
	m := reflect.ValueOf(h.v).MethodByName(fn.Name())
	if !m.IsValid() {
		return nil, false
	}
	if !allConcrete(args[1:]) {
		panic(engineFault{"symbolic argument to host method " + fn.String()})
	}
	r, ok := fr.i.callHost(m.Interface(), args[1:])
	if !ok {
		panic(engineFault{"cannot bridge host method " + fn.String()})
	}
	return r, true
}

// ---------------- helpers for symbolic strings / byte slices

func asSymBytes(v value) (symstr, bool) {
	switch x := v.(type) {
	case string:
		return toSymstr(x), true
	case symstr:
		return x, true
	case []value:
		return symstr(x), true
	}
	return nil, false
}

func byteEqCond(fr *frame, a, b value) value {
	ca, aok := a.(uint8)
	cb, bok := b.(uint8)
	if aok && bok {
		return ca == cb
	}
	return mkBool("(= " + byteTerm(a) + " " + byteTerm(b) + ")")
}

func symIndexByte(fr *frame, s symstr, c value) int {
	for k := range s {
		if symBranch(fr, byteEqCond(fr, s[k], c), nil) {
			return k
		}
	}
	return -1
}

func symLastIndexByte(fr *frame, s symstr, c value) int {
	for k := len(s) - 1; k >= 0; k-- {
		if symBranch(fr, byteEqCond(fr, s[k], c), nil) {
			return k
		}
	}
	return -1
}

func symIndex(fr *frame, s, sub symstr) int {
	if len(sub) == 0 {
		return 0
	}
	for k := 0; k+len(sub) <= len(s); k++ {
		t := symstrEqTerm(s[k:k+len(sub)], sub)
		var c value
		switch t {
		case "true":
			c = true
		case "false":
			c = false
		default:
			c = fr.i.ex.named(mkBool(t))
		}
		if symBranch(fr, c, nil) {
			return k
		}
	}
	return -1
}

func symCompare(fr *frame, a, b symstr) int {
	lt := symstrLessTerm(a, b, false)
	var c value = fr.i.ex.named(mkBool(lt))
	if lt == "true" {
		c = true
	} else if lt == "false" {
		c = false
	}
	if symBranch(fr, c, nil) {
		return -1
	}
	eq := symstrEqTerm(a, b)
	c = fr.i.ex.named(mkBool(eq))
	if eq == "true" {
		c = true
	} else if eq == "false" {
		c = false
	}
	if symBranch(fr, c, nil) {
		return 0
	}
	return 1
}

func fpOf(v value) *symv {
	switch x := v.(type) {
	case *symv:
		return x
	case float64:
		return mkFP(fpLit(x))
	}
	panic(engineFault{fmt.Sprintf("fpOf %T", v)})
}

func (ex *explorer) freshFloatStub(what string) *symv {
	ex.noteAssumption("stub: " + what + " on symbolic arguments returns an arbitrary float64")
	return ex.fresh("stub_"+what, sFP64, 64)
}

// ---------------- registration

func registerSymExternals() {
	// every host function: native when concrete, else decline (or a specific symbolic model below)
	for name := range hostFuncs {
		name := name
		if _, has := externals[name]; has {
			continue
		}
		if !preferHost[name] {
			continue
		}
		externals[name] = func(fr *frame, args []value) value {
			if allConcrete(args) {
				if r, ok := fr.i.callHost(hostFuncs[name], args); ok {
					return r
				}
			}
			return declined{}
		}
	}
	sym1 := func(name string, term func(x string) string, host func(float64) float64) {
		externals[name] = func(fr *frame, args []value) value {
			if s, ok := args[0].(*symv); ok {
				return fr.i.ex.named(mkFP(term(s.term)))
			}
			return host(args[0].(float64))
		}
	}
	for _, n := range []string{"math.Floor", "math.archFloor", "math.floor"} {
		sym1(n, func(x string) string { return "(fp.roundToIntegral RTN " + x + ")" }, math.Floor)
	}
	for _, n := range []string{"math.Ceil", "math.archCeil", "math.ceil"} {
		sym1(n, func(x string) string { return "(fp.roundToIntegral RTP " + x + ")" }, math.Ceil)
	}
	for _, n := range []string{"math.Trunc", "math.archTrunc", "math.trunc"} {
		sym1(n, func(x string) string { return "(fp.roundToIntegral RTZ " + x + ")" }, math.Trunc)
	}
	for _, n := range []string{"math.Sqrt", "math.archSqrt", "math.sqrt"} {
		sym1(n, func(x string) string { return "(fp.sqrt RNE " + x + ")" }, math.Sqrt)
	}
	sym1("math.Abs", func(x string) string { return "(fp.abs " + x + ")" }, math.Abs)
	sym1("math.Round", func(x string) string { return "(fp.roundToIntegral RNA " + x + ")" }, math.Round)
	sym1("math.RoundToEven", func(x string) string { return "(fp.roundToIntegral RNE " + x + ")" }, math.RoundToEven)
	// math.Max / math.Min with Go's NaN, infinity and signed-zero rules
	mm := func(isMax bool) externalFn {
		return func(fr *frame, args []value) value {
			if allConcrete(args) {
				if isMax {
					return math.Max(args[0].(float64), args[1].(float64))
				}
				return math.Min(args[0].(float64), args[1].(float64))
			}
			x, y := fpOf(args[0]).term, fpOf(args[1]).term
			nan := "(_ NaN 11 53)"
			var pick, zero string
			if isMax {
				pick = "(ite (fp.gt " + x + " " + y + ") " + x + " (ite (fp.lt " + x + " " + y + ") " + y + " ZERO))"
				zero = "(ite (and (fp.isZero " + x + ") (fp.isNegative " + x + ")) " + y + " " + x + ")"
			} else {
				pick = "(ite (fp.lt " + x + " " + y + ") " + x + " (ite (fp.gt " + x + " " + y + ") " + y + " ZERO))"
				zero = "(ite (and (fp.isZero " + x + ") (fp.isNegative " + x + ")) " + x + " " + y + ")"
			}
			pick = strings.Replace(pick, "ZERO", zero, 1)
			// infinities are covered by gt/lt; NaN wins unless an infinity of the winning sign is present
			var inf string
			if isMax {
				inf = "(or (and (fp.isInfinite " + x + ") (fp.isPositive " + x + ")) (and (fp.isInfinite " + y + ") (fp.isPositive " + y + ")))"
			} else {
				inf = "(or (and (fp.isInfinite " + x + ") (fp.isNegative " + x + ")) (and (fp.isInfinite " + y + ") (fp.isNegative " + y + ")))"
			}
			infv := "(_ +oo 11 53)"
			if !isMax {
				infv = "(_ -oo 11 53)"
			}
			t := "(ite " + inf + " " + infv + " (ite (or (fp.isNaN " + x + ") (fp.isNaN " + y + ")) " + nan + " " + pick + "))"
			return fr.i.ex.named(mkFP(t))
		}
	}
	for _, n := range []string{"math.Max", "math.archMax", "math.max"} {
		externals[n] = mm(true)
	}
	for _, n := range []string{"math.Min", "math.archMin", "math.min"} {
		externals[n] = mm(false)
	}
	externals["math.IsNaN"] = func(fr *frame, args []value) value {
		if s, ok := args[0].(*symv); ok {
			return mkBool("(fp.isNaN " + s.term + ")")
		}
		return math.IsNaN(args[0].(float64))
	}
	externals["math.IsInf"] = func(fr *frame, args []value) value {
		s, ok := args[0].(*symv)
		if !ok {
			if _, symSign := args[1].(*symv); symSign {
				panic(engineFault{"math.IsInf with symbolic sign"})
			}
			return math.IsInf(args[0].(float64), args[1].(int))
		}
		sign, ok := args[1].(int)
		if !ok {
			panic(engineFault{"math.IsInf with symbolic sign"})
		}
		switch {
		case sign > 0:
			return mkBool("(and (fp.isInfinite " + s.term + ") (fp.isPositive " + s.term + "))")
		case sign < 0:
			return mkBool("(and (fp.isInfinite " + s.term + ") (fp.isNegative " + s.term + "))")
		}
		return mkBool("(fp.isInfinite " + s.term + ")")
	}
	externals["math.Float64bits"] = func(fr *frame, args []value) value {
		s, ok := args[0].(*symv)
		if !ok {
			return math.Float64bits(args[0].(float64))
		}
		ex := fr.i.ex
		b := ex.fresh("f64bits", sBV, 64)
		// b is the IEEE encoding of s (any NaN payload for NaN)
		ex.addCond("(= ((_ to_fp 11 53) " + b.term + ") " + s.term + ")")
		return b
	}
	externals["math.Float64frombits"] = func(fr *frame, args []value) value {
		if s, ok := args[0].(*symv); ok {
			return fr.i.ex.named(mkFP("((_ to_fp 11 53) " + s.term + ")"))
		}
		return math.Float64frombits(args[0].(uint64))
	}
	externals["math.Mod"] = func(fr *frame, args []value) value {
		if allConcrete(args) {
			return math.Mod(args[0].(float64), args[1].(float64))
		}
		return fr.i.ex.named(mkFP("(fp.rem " + fpOf(args[0]).term + " " + fpOf(args[1]).term + ")")) // NOTE: fp.rem is IEEE remainder, not fmod
	}
	delete(externals, "math.Mod")
	for _, n := range []string{"math.Pow", "math.Exp", "math.Log", "math.Log10", "math.Log2", "math.Log1p", "math.Expm1", "math.Sin", "math.Cos",
		"math.Tan", "math.Asin", "math.Acos", "math.Atan", "math.Atan2", "math.Sinh", "math.Cosh", "math.Tanh", "math.Asinh", "math.Acosh",
		"math.Atanh", "math.Cbrt", "math.Mod", "math.Hypot", "math.Gamma", "math.Erf", "math.Erfc", "math.Exp2", "math.Remainder", "math.Ldexp",
		"math.archExp", "math.archLog", "math.archHypot"} {
		n := n
		externals[n] = func(fr *frame, args []value) value {
			if allConcrete(args) {
				if r, ok := fr.i.callHost(hostFuncs[n], args); ok {
					return r
				}
			}
			return fr.i.ex.freshFloatStub(n)
		}
	}

	// internal/abi, runtime odds and ends
	externals["internal/abi.NoEscape"] = func(fr *frame, args []value) value { return args[0] }
	externals["internal/abi.Escape"] = func(fr *frame, args []value) value { return args[0] }
	externals["runtime.KeepAlive"] = func(fr *frame, args []value) value { return nil }
	externals["runtime.SetFinalizer"] = func(fr *frame, args []value) value { return nil }
	externals["internal/race.Enabled"] = func(fr *frame, args []value) value { return false }
	externals["internal/godebug.(*Setting).Value"] = func(fr *frame, args []value) value { return "" }
	externals["(*internal/godebug.Setting).Value"] = func(fr *frame, args []value) value { return "" }
	externals["(*internal/godebug.Setting).IncNonDefault"] = func(fr *frame, args []value) value { return nil }
	externals["internal/godebug.New"] = func(fr *frame, args []value) value { return (*value)(nil) }
	externals["os.Getenv"] = func(fr *frame, args []value) value { return "" }
	externals["os.LookupEnv"] = func(fr *frame, args []value) value { return tuple{"", false} }
	externals["os.Hostname"] = func(fr *frame, args []value) value { return tuple{"host", iface{}} }
	externals["os.Getpid"] = func(fr *frame, args []value) value { return 1 }

	// bytealg leaves and the string searches built on them
	idxByte := func(fr *frame, args []value) value {
		s, _ := asSymBytes(args[0])
		return symIndexByte(fr, s, args[1])
	}
	for _, n := range []string{"internal/bytealg.IndexByteString", "internal/bytealg.IndexByte", "strings.IndexByte", "bytes.IndexByte",
		"internal/stringslite.IndexByte"} {
		prev := externals[n]
		externals[n] = func(fr *frame, args []value) value {
			if prev != nil && allConcrete(args) {
				if r := prev(fr, args); r != (declined{}) {
					return r
				}
			}
			return idxByte(fr, args)
		}
	}
	lastIdxByte := func(fr *frame, args []value) value {
		s, _ := asSymBytes(args[0])
		return symLastIndexByte(fr, s, args[1])
	}
	for _, n := range []string{"internal/bytealg.LastIndexByteString", "internal/bytealg.LastIndexByte", "strings.LastIndexByte", "bytes.LastIndexByte"} {
		externals[n] = lastIdxByte
	}
	idx := func(fr *frame, args []value) value {
		s, _ := asSymBytes(args[0])
		sub, _ := asSymBytes(args[1])
		return symIndex(fr, s, sub)
	}
	for _, n := range []string{"internal/bytealg.IndexString", "internal/bytealg.Index", "strings.Index", "bytes.Index", "internal/stringslite.Index"} {
		externals[n] = idx
	}
	cnt := func(fr *frame, args []value) value {
		s, _ := asSymBytes(args[0])
		n := 0
		for k := range s {
			if symBranch(fr, byteEqCond(fr, s[k], args[1]), nil) {
				n++
			}
		}
		return n
	}
	externals["internal/bytealg.CountString"] = cnt
	externals["internal/bytealg.Count"] = cnt
	cmp := func(fr *frame, args []value) value {
		a, _ := asSymBytes(args[0])
		b, _ := asSymBytes(args[1])
		return symCompare(fr, a, b)
	}
	externals["internal/bytealg.Compare"] = cmp
	externals["internal/bytealg.CompareString"] = cmp
	externals["runtime.cmpstring"] = cmp
	externals["strings.Compare"] = cmp
	externals["bytes.Compare"] = cmp
	externals["internal/bytealg.Equal"] = func(fr *frame, args []value) value {
		a, _ := asSymBytes(args[0])
		b, _ := asSymBytes(args[1])
		t := symstrEqTerm(a, b)
		switch t {
		case "true":
			return true
		case "false":
			return false
		}
		return fr.i.ex.named(mkBool(t))
	}
	externals["bytes.Equal"] = externals["internal/bytealg.Equal"]
	externals["internal/bytealg.MakeNoZero"] = func(fr *frame, args []value) value {
		n := concreteLen(fr, token.NoPos, args[0], "makeslice: len out of range")
		out := make([]value, n)
		for k := range out {
			out[k] = uint8(0)
		}
		return out
	}
	externals["strings.Repeat"] = func(fr *frame, args []value) value {
		if allConcrete(args) {
			n := args[1].(int)
			if n < 0 {
				panic(targetPanic{iface{types.Typ[types.String], "strings: negative Repeat count"}})
			}
			if int64(n)*int64(len(args[0].(string))) > 1<<31 {
				fr.i.ex.runtimePanic(fr, fr.callPos(), "strings.Repeat: allocation larger than 2^31 bytes")
			}
			return strings.Repeat(args[0].(string), n)
		}
		s, _ := asSymBytes(args[0])
		if cs, ok := args[1].(*symv); ok && len(s) > 0 {
			ex := fr.i.ex
			ex.implicitAssert(fr, fr.callPos(), "strings: negative Repeat count", "(bvsge "+cs.term+" "+bvLit(0, cs.bits)+")")
			ex.implicitAssert(fr, fr.callPos(), "strings.Repeat: allocation larger than 2^31 bytes", "(bvslt "+cs.term+" "+bvLit(uint64((1<<31)/len(s)), cs.bits)+")")
		}
		n := concreteLen(fr, fr.callPos(), args[1], "strings: negative Repeat count")
		var out symstr
		for k := 0; k < n; k++ {
			out = append(out, s...)
		}
		return normStr(out)
	}

	// strconv: the float back end is a stub on symbolic input
	externals["strconv.atof64"] = extAtof64
	externals["strconv.ParseFloat"] = func(fr *frame, args []value) value {
		if allConcrete(args) {
			f, err := strconv.ParseFloat(args[0].(string), args[1].(int))
			return tuple{f, fr.i.strconvErr(err)}
		}
		return declined{}
	}
	externals["strconv.ParseInt"] = func(fr *frame, args []value) value {
		if allConcrete(args) {
			n, err := strconv.ParseInt(args[0].(string), args[1].(int), args[2].(int))
			return tuple{n, fr.i.strconvErr(err)}
		}
		return declined{}
	}
	externals["strconv.ParseUint"] = func(fr *frame, args []value) value {
		if allConcrete(args) {
			n, err := strconv.ParseUint(args[0].(string), args[1].(int), args[2].(int))
			return tuple{n, fr.i.strconvErr(err)}
		}
		return declined{}
	}
	externals["strconv.Atoi"] = func(fr *frame, args []value) value {
		if allConcrete(args) {
			n, err := strconv.Atoi(args[0].(string))
			return tuple{n, fr.i.strconvErr(err)}
		}
		return declined{}
	}
	// number -> text of a symbolic number: a placeholder (formatting is not the subject unless a
	// harness concretises the value first)
	for _, n := range []string{"strconv.FormatInt", "strconv.FormatUint", "strconv.Itoa", "strconv.FormatFloat"} {
		n := n
		externals[n] = func(fr *frame, args []value) value {
			if allConcrete(args) {
				if r, ok := fr.i.callHost(hostFuncs[n], args); ok {
					return r
				}
				return declined{}
			}
			// complete concretisation when the value has few feasible values on this path
			if sv, ok := args[0].(*symv); ok && sv.sort == sBV && n != "strconv.FormatFloat" {
				if _, okb := args[len(args)-1].(*symv); !okb || len(args) == 1 {
					if v, ok := fr.i.ex.tryConcretizeSmall(fr, sv, n != "strconv.FormatUint"); ok {
						nargs := append([]value{}, args...)
						switch args[0].(type) {
						default:
							switch n {
							case "strconv.Itoa":
								nargs[0] = int(v)
							case "strconv.FormatUint":
								nargs[0] = uint64(v)
							default:
								nargs[0] = v
							}
						}
						if r, ok := fr.i.callHost(hostFuncs[n], nargs); ok {
							return r
						}
					}
				}
			}
			fr.i.ex.noteAssumption("formatting stub: " + n + " of a symbolic number with many feasible values yields an opaque text (any computation on it ends the path as undecided)")
			return poisonStr()
		}
	}
	for _, n := range []string{"strconv.AppendInt", "strconv.AppendUint", "strconv.AppendFloat"} {
		n := n
		externals[n] = func(fr *frame, args []value) value {
			if allConcrete(args) {
				return declined{}
			}
			fr.i.ex.noteAssumption("formatting stub: " + n + " of a symbolic number yields an opaque text (any computation on it ends the path as undecided)")
			return append(args[0].([]value), []value(poisonStr())...)
		}
	}

	registerFmt()
	registerSync()
	registerSort()
	registerTime()
}

// strconvErr maps a host strconv error to the interpreted *strconv.NumError
// (only nil-ness and the Err kind are reproduced).
func (i *interpreter) strconvErr(e error) value {
	if e == nil {
		return iface{}
	}
	return i.hostError(e)
}

// extAtof64: special() and readFloat() are executed for real; the numeric back end
// (exact / Eisel-Lemire / decimal slow path) is an arbitrary non-NaN float.
func extAtof64(fr *frame, args []value) value {
	if allConcrete(args) {
		return declined{}
	}
	i := fr.i
	pkg := i.prog.ImportedPackage("strconv")
	s := args[0]
	sp := call(i, fr, token.NoPos, pkg.Func("special"), []value{s}).(tuple)
	if okv, isB := sp[2].(bool); !isB || okv {
		if !isB {
			panic(engineFault{"strconv.special returned symbolic ok"})
		}
		return tuple{sp[0], sp[1], iface{}}
	}
	rf := call(i, fr, token.NoPos, pkg.Func("readFloat"), []value{s}).(tuple)
	// mantissa, exp, neg, trunc, hex, i, ok
	n := rf[5]
	ok := rf[6]
	if symBranch(fr, ok, nil) {
		ex := fr.i.ex
		f := ex.fresh("parsed_float", sFP64, 64)
		ex.addCond("(not (fp.isNaN " + f.term + "))")
		ex.noteAssumption("stub: strconv float back end (after the real syntactic scan readFloat/special) returns an arbitrary non-NaN float64; range errors not modelled")
		return tuple{f, n, iface{}}
	}
	serr := call(i, fr, token.NoPos, pkg.Func("syntaxError"), []value{"ParseFloat", s})
	return tuple{float64(0), n, iface{t: types.NewPointer(pkg.Type("NumError").Type()), v: serr}}
}

var _ = unsafe.Pointer(nil)
var _ = os.Getenv
var _ = sort.Strings
