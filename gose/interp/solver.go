package interp

// SMT back ends: long-lived solver processes fed through a pipe, one set per worker.
// Every query is sent as (reset) + options + declarations + assertions + (check-sat), so no state
// carries over between queries (process start-up is what is avoided, not re-assertion).
// Any "(error" line makes the query inconclusive.  A query not decided by the primary within its
// cap is raced on the other back ends sequentially; a query no back end decides is "unknown".

import (
	"bufio"
	"fmt"
	"io"
	"os"
	"os/exec"
	"strings"
	"sync/atomic"
	"time"
)

type backend struct {
	name     string
	argv     []string
	preamble func(timeoutMs int) string
	cmd      *exec.Cmd
	in       io.WriteCloser
	out      *bufio.Reader
	lines    chan string
	dead     bool
}

func z3Preamble(ms int) string {
	return fmt.Sprintf("(reset)\n(set-option :timeout %d)\n", ms)
}

func cvc5Preamble(ms int) string {
	return "(reset)\n(set-logic ALL)\n"
}

func (b *backend) start() error {
	b.cmd = exec.Command(b.argv[0], b.argv[1:]...)
	in, err := b.cmd.StdinPipe()
	if err != nil {
		return err
	}
	out, err := b.cmd.StdoutPipe()
	if err != nil {
		return err
	}
	b.cmd.Stderr = nil
	if err := b.cmd.Start(); err != nil {
		return err
	}
	b.in = in
	b.out = bufio.NewReaderSize(out, 1<<16)
	b.lines = make(chan string, 1024)
	b.dead = false
	rd := b.out
	ch := b.lines
	go func() {
		for {
			l, err := rd.ReadString('\n')
			if l != "" {
				ch <- l
			}
			if err != nil {
				close(ch)
				return
			}
		}
	}()
	return nil
}

// interrupt kills the solver process of a back end that is busy with a losing query; the
// goroutine blocked in ask() sees EOF and restarts the process lazily.
func (b *backend) interrupt() {
	if c := b.cmd; c != nil {
		if p := c.Process; p != nil {
			p.Kill()
		}
	}
}

func (b *backend) kill() {
	if b.cmd != nil && b.cmd.Process != nil {
		b.cmd.Process.Kill()
		b.cmd.Wait()
	}
	b.cmd = nil
	b.dead = true
}

// readLine returns the next output line or "" on timeout/EOF.
func (b *backend) readLine(d time.Duration) (string, bool) {
	select {
	case l, ok := <-b.lines:
		if !ok {
			return "", false
		}
		return l, true
	case <-time.After(d):
		return "", false
	}
}

type solverSet struct {
	inc      *backend // incremental primary (push/pop within one path)
	incPath  int64
	incDecls int
	incConds int
	incOff   bool // the incremental solver answered unknown: one-shot for the rest of this path
	IncQ     int64
	backends []*backend
	Queries  int64
	Sat      int64
	Unsat    int64
	Unknown  int64
	Errors   int64
	Time     time.Duration
	PerBack  map[string]int64
	capMs    int
	quickMs  int
	logf     *os.File
}

var solverSeq int64

func newSolverSet(capMs int) *solverSet {
	s := &solverSet{capMs: capMs, quickMs: 4000, PerBack: map[string]int64{}}
	if s.quickMs > capMs {
		s.quickMs = capMs
	}
	s.backends = []*backend{
		{name: "z3-new", argv: []string{"z3-new", "-in"}, preamble: z3Preamble},
		{name: "cvc5", argv: []string{"cvc5", "--lang=smt2", "--incremental", "--produce-models", "--fp-exp", "--bv-print-consts-as-indexed-symbols"}, preamble: cvc5Preamble},
		{name: "cvc5-bvint", argv: []string{"cvc5", "--lang=smt2", "--incremental", "--produce-models", "--solve-bv-as-int=sum", "--bv-print-consts-as-indexed-symbols"}, preamble: cvc5Preamble},
		{name: "z3-old", argv: []string{"z3", "-in"}, preamble: z3Preamble},
	}
	s.inc = &backend{name: "z3-new-inc", argv: []string{"z3-new", "-in"}, preamble: z3Preamble}
	if os.Getenv("GOSE_NOINC") != "" {
		s.inc = nil
	}
	if p := os.Getenv("GOSE_SMTLOG"); p != "" {
		n := atomic.AddInt64(&solverSeq, 1)
		s.logf, _ = os.Create(fmt.Sprintf("%s.%d.smt2", p, n))
	}
	return s
}

func (s *solverSet) close() {
	if s.inc != nil && s.inc.cmd != nil {
		s.inc.kill()
	}
	for _, b := range s.backends {
		if b.cmd != nil {
			b.kill()
		}
	}
	if s.logf != nil {
		s.logf.Close()
	}
}

// ask one back end. res is "sat", "unsat", "unknown" or "error".
func (s *solverSet) ask(b *backend, body string, getvals []string, ms int) (string, map[string]string) {
	if b.cmd == nil {
		if err := b.start(); err != nil {
			return "error", nil
		}
	}
	var sb strings.Builder
	sb.WriteString(b.preamble(ms))
	sb.WriteString(body)
	sb.WriteString("(check-sat)\n")
	if _, err := io.WriteString(b.in, sb.String()); err != nil {
		b.kill()
		return "error", nil
	}
	deadline := time.Duration(ms)*time.Millisecond + 3*time.Second
	res := ""
	for res == "" {
		l, ok := b.readLine(deadline)
		if !ok {
			b.kill()
			return "unknown", nil
		}
		l = strings.TrimSpace(l)
		switch {
		case l == "sat" || l == "unsat" || l == "unknown":
			res = l
		case strings.HasPrefix(l, "(error"):
			// drain until the check-sat answer so that the stream stays in sync
			if os.Getenv("GOSE_DEBUG") != "" {
				fmt.Fprintf(os.Stderr, "gose: solver %s: %s\n", b.name, l)
			}
			res = "error"
			b.kill()
			return res, nil
		case l == "":
		default:
			// unsupported / success / timeout notes
			if strings.Contains(l, "timeout") || strings.Contains(l, "interrupted") {
				res = "unknown"
			}
		}
	}
	if res != "sat" || len(getvals) == 0 {
		return res, nil
	}
	io.WriteString(b.in, "(get-value ("+strings.Join(getvals, " ")+"))\n(echo \"@@end\")\n")
	var mb strings.Builder
	for {
		l, ok := b.readLine(20 * time.Second)
		if !ok {
			b.kill()
			return "error", nil
		}
		if strings.Contains(l, "@@end") {
			break
		}
		if strings.HasPrefix(strings.TrimSpace(l), "(error") {
			b.kill()
			return "error", nil
		}
		mb.WriteString(l)
	}
	return res, parseModel(mb.String())
}

// check decides decls ∧ asserts.  The order of back ends depends on the theories used.
func (s *solverSet) check(decls []string, asserts []string, getvals []string) (string, map[string]string) {
	t0 := time.Now()
	var sb strings.Builder
	for _, d := range decls {
		sb.WriteString(d)
		sb.WriteByte('\n')
	}
	hasFP, hasDiv := false, false
	for _, a := range asserts {
		sb.WriteString("(assert ")
		sb.WriteString(a)
		sb.WriteString(")\n")
	}
	body := sb.String()
	hasFP = strings.Contains(body, "fp.") || strings.Contains(body, "to_fp")
	hasDiv = strings.Contains(body, "bvsrem") || strings.Contains(body, "bvsdiv") || strings.Contains(body, "bvurem") || strings.Contains(body, "bvudiv") || strings.Contains(body, "bvmul")
	if s.logf != nil {
		fmt.Fprintf(s.logf, "; ---- query %d\n(reset)\n%s(check-sat)\n", s.Queries, body)
	}
	order := []int{0, 1, 3}
	if hasFP {
		order = []int{0, 1, 3}
	} else if hasDiv {
		order = []int{0, 2, 1, 3}
	}
	res := "unknown"
	var model map[string]string
	// primary first, with a short cap
	{
		b := s.backends[order[0]]
		r, m := s.ask(b, body, getvals, s.quickMs)
		if r == "sat" || r == "unsat" {
			res, model = r, m
			s.PerBack[b.name]++
		} else if r == "error" {
			s.Errors++
		}
	}
	if res == "unknown" && s.capMs > s.quickMs {
		// race all back ends (incl. the primary with the full cap); first definitive answer wins
		type ans struct {
			r string
			m map[string]string
			b *backend
		}
		ch := make(chan ans, len(order))
		for _, bi := range order {
			b := s.backends[bi]
			go func() {
				r, m := s.ask(b, body, getvals, s.capMs)
				ch <- ans{r, m, b}
			}()
		}
		got := 0
		for got < len(order) {
			a := <-ch
			got++
			if a.r == "sat" || a.r == "unsat" {
				res, model = a.r, a.m
				s.PerBack[a.b.name]++
				// stop the others
				for _, bi := range order {
					if s.backends[bi] != a.b {
						s.backends[bi].interrupt()
					}
				}
				for got < len(order) {
					<-ch
					got++
				}
				break
			}
			if a.r == "error" {
				s.Errors++
			}
		}
	}
	s.Queries++
	switch res {
	case "sat":
		s.Sat++
	case "unsat":
		s.Unsat++
	default:
		s.Unknown++
	}
	s.Time += time.Since(t0)
	return res, model
}

// ---- model parsing: ((name value) (name value) ...)

func parseModel(s string) map[string]string {
	m := map[string]string{}
	toks := tokenizeSexp(s)
	// expect ( ( name val ) ( name val ) ... ) possibly repeated
	i := 0
	var parseVal func() string
	parseVal = func() string {
		if i >= len(toks) {
			return ""
		}
		if toks[i] != "(" {
			v := toks[i]
			i++
			return v
		}
		depth := 0
		var parts []string
		for i < len(toks) {
			t := toks[i]
			i++
			if t == "(" {
				depth++
			} else if t == ")" {
				depth--
			}
			parts = append(parts, t)
			if depth == 0 {
				break
			}
		}
		return strings.Join(parts, " ")
	}
	for i < len(toks) {
		if toks[i] == "(" && i+1 < len(toks) && toks[i+1] == "(" {
			i++
			continue
		}
		if toks[i] == "(" {
			i++
			if i >= len(toks) {
				break
			}
			name := strings.Trim(toks[i], "|")
			i++
			val := parseVal()
			if i < len(toks) && toks[i] == ")" {
				i++
			}
			m[name] = val
			continue
		}
		i++
	}
	return m
}

func tokenizeSexp(s string) []string {
	var toks []string
	i := 0
	for i < len(s) {
		c := s[i]
		switch {
		case c == ' ' || c == '\n' || c == '\t' || c == '\r':
			i++
		case c == '(' || c == ')':
			toks = append(toks, string(c))
			i++
		case c == '|':
			j := i + 1
			for j < len(s) && s[j] != '|' {
				j++
			}
			toks = append(toks, s[i:j+1])
			i = j + 1
		case c == '"':
			j := i + 1
			for j < len(s) && s[j] != '"' {
				j++
			}
			toks = append(toks, s[i:j+1])
			i = j + 1
		default:
			j := i
			for j < len(s) && !strings.ContainsRune(" \n\t\r()", rune(s[j])) {
				j++
			}
			toks = append(toks, s[i:j])
			i = j
		}
	}
	return toks
}

// modelUint decodes a bit-vector / Bool model value to (value, ok).
func modelUint(v string) (uint64, bool) {
	v = strings.TrimSpace(v)
	switch {
	case v == "true":
		return 1, true
	case v == "false":
		return 0, true
	case strings.HasPrefix(v, "#x"):
		var u uint64
		_, err := fmt.Sscanf(v[2:], "%x", &u)
		return u, err == nil
	case strings.HasPrefix(v, "#b"):
		var u uint64
		for _, c := range v[2:] {
			u = u<<1 | uint64(c-'0')
		}
		return u, true
	case strings.HasPrefix(v, "( _ bv"):
		var u uint64
		var w int
		_, err := fmt.Sscanf(v, "( _ bv%d %d )", &u, &w)
		return u, err == nil
	case strings.HasPrefix(v, "(_ bv"):
		var u uint64
		var w int
		_, err := fmt.Sscanf(v, "(_ bv%d %d)", &u, &w)
		return u, err == nil
	}
	return 0, false
}

// checkPath decides decls ∧ conds ∧ extra.  decls and conds only ever grow within one pathID, so
// the primary keeps them asserted and each query is push / assert extra / check-sat / pop.
// An unknown from the incremental solver falls back to the one-shot portfolio for the rest of the path.
func (s *solverSet) checkPath(pathID int64, decls, conds []string, extra string, getvals []string) (string, map[string]string) {
	oneShot := func() (string, map[string]string) {
		as := conds
		if extra != "" {
			as = append(append(make([]string, 0, len(conds)+1), conds...), extra)
		}
		return s.check(decls, as, getvals)
	}
	b := s.inc
	if b == nil {
		return oneShot()
	}
	if pathID != s.incPath || len(decls) < s.incDecls || len(conds) < s.incConds || b.cmd == nil {
		s.incPath, s.incDecls, s.incConds, s.incOff = pathID, 0, 0, false
		if b.cmd == nil {
			if err := b.start(); err != nil {
				s.inc = nil
				return oneShot()
			}
		}
		io.WriteString(b.in, fmt.Sprintf("(reset)\n(set-option :timeout %d)\n", 1500))
	}
	if s.incOff {
		return oneShot()
	}
	t0 := time.Now()
	var sb strings.Builder
	for _, d := range decls[s.incDecls:] {
		sb.WriteString(d)
		sb.WriteByte('\n')
	}
	for _, c := range conds[s.incConds:] {
		sb.WriteString("(assert ")
		sb.WriteString(c)
		sb.WriteString(")\n")
	}
	s.incDecls, s.incConds = len(decls), len(conds)
	sb.WriteString("(push 1)\n")
	if extra != "" {
		sb.WriteString("(assert " + extra + ")\n")
	}
	sb.WriteString("(check-sat)\n")
	if s.logf != nil {
		fmt.Fprintf(s.logf, "; ---- inc query\n%s", sb.String())
	}
	if _, err := io.WriteString(b.in, sb.String()); err != nil {
		b.kill()
		return oneShot()
	}
	res := ""
	for res == "" {
		l, ok := b.readLine(6 * time.Second)
		if !ok {
			b.kill()
			s.incOff = true
			return oneShot()
		}
		l = strings.TrimSpace(l)
		switch {
		case l == "sat" || l == "unsat" || l == "unknown":
			res = l
		case strings.HasPrefix(l, "(error"):
			b.kill()
			s.incOff = true
			return oneShot()
		}
	}
	var model map[string]string
	if res == "sat" && len(getvals) > 0 {
		io.WriteString(b.in, "(get-value ("+strings.Join(getvals, " ")+"))\n(echo \"@@end\")\n")
		var mb strings.Builder
		for {
			l, ok := b.readLine(20 * time.Second)
			if !ok || strings.HasPrefix(strings.TrimSpace(l), "(error") {
				b.kill()
				s.incOff = true
				return oneShot()
			}
			if strings.Contains(l, "@@end") {
				break
			}
			mb.WriteString(l)
		}
		model = parseModel(mb.String())
	}
	io.WriteString(b.in, "(pop 1)\n")
	if res == "unknown" {
		s.incOff = true
		return oneShot()
	}
	s.Queries++
	s.IncQ++
	if res == "sat" {
		s.Sat++
	} else {
		s.Unsat++
	}
	s.PerBack[b.name]++
	s.Time += time.Since(t0)
	return res, model
}
