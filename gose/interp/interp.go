// Copyright 2013 The Go Authors. All rights reserved.
// Use of this source code is governed by a BSD-style
// license that can be found in the LICENSE file.

// Package interp is the symbolic executor of gose.  It started as a copy of
// golang.org/x/tools/go/ssa/interp (v0.50.0) — a concrete interpreter of go/ssa — and keeps
// its boxed value representation; on top of it scalars may be SMT terms (*symv), strings may
// have symbolic bytes (symstr), maps are deterministic (omap), channels are FIFO objects
// (symchan), every store is undo-logged, and branches on terms fork by decision-prefix
// re-execution (explore.go).
package interp

import (
	"fmt"
	"go/token"
	"go/types"
	"log"
	"os"
	"runtime"
	"slices"
	"strings"
	_ "unsafe"

	"golang.org/x/tools/go/ssa"
)

type continuation int

const (
	kNext continuation = iota
	kReturn
	kJump
)

// Mode is a bitmask of options affecting the interpreter.
type Mode uint

const (
	DisableRecover Mode = 1 << iota // Disable recover() in target programs; show interpreter crash instead.
	EnableTracing                   // Print a trace of all instructions as they are interpreted.
)

type methodSet map[string]*ssa.Function

type fnInfo struct {
	name    string
	ext     externalFn
	isVerif bool
	isInit  bool
	pkg     *ssa.Package
	repo    bool
}

// State of one worker's interpreter.
type interpreter struct {
	osArgs             []value                // the value of os.Args
	prog               *ssa.Program           // the SSA program
	globals            map[*ssa.Global]*value // addresses of global variables (immutable)
	mode               Mode                   // interpreter options
	reflectPackage     *ssa.Package           // the fake reflect package
	errorMethods       methodSet              // the method set of reflect.error, which implements the error interface.
	rtypeMethods       methodSet              // the method set of rtype, which implements the reflect.Type interface.
	runtimeErrorString types.Type             // the runtime.errorString type (iff "runtime" is present)
	sizes              types.Sizes            // the effective type-sizing function
	goroutines         int32                  // atomically updated

	ex        *explorer
	inited    map[*ssa.Package]bool
	fninfo    map[*ssa.Function]*fnInfo
	spawnSync bool
	preemptAfterSend bool // harness opt-in: a goroutine may be descheduled right after a completed send
	preemptsLeft     int
	lastExit  int
	initDepth int
	sideTab   map[sideKey]*int64
}

type deferred struct {
	fn    value
	args  []value
	instr *ssa.Defer
	tail  *deferred
}

type frame struct {
	i                *interpreter
	caller           *frame
	fn               *ssa.Function
	block, prevBlock *ssa.BasicBlock
	env              map[ssa.Value]value // dynamic values of SSA variables
	locals           []value
	defers           *deferred
	result           value
	panicking        bool
	panic            any
	phitemps         []value // temporaries for parallel phi assignment
	symCount         map[ssa.Instruction]int
	curInstr         ssa.Instruction
	skipPhis         bool
}

func (fr *frame) callPos() token.Pos {
	if fr == nil || fr.curInstr == nil {
		return token.NoPos
	}
	return fr.curInstr.Pos()
}

func (fr *frame) get(key ssa.Value) value {
	switch key := key.(type) {
	case nil:
		// Hack; simplifies handling of optional attributes
		// such as ssa.Slice.{Low,High}.
		return nil
	case *ssa.Function, *ssa.Builtin:
		return key
	case *ssa.Const:
		return constValue(key)
	case *ssa.Global:
		ensureInit(fr.i, key.Pkg)
		return fr.i.globalCell(key)
	}
	if r, ok := fr.env[key]; ok {
		return r
	}
	panic(engineFault{fmt.Sprintf("get: no value for %T: %v", key, key.Name())})
}

// runDefer runs a deferred call d.
// It always returns normally, but may set or clear fr.panic.
func (fr *frame) runDefer(d *deferred) {
	var ok bool
	defer func() {
		if !ok {
			// Deferred call created a new state of panic.
			r := recover()
			if passThrough(r) {
				panic(r)
			}
			fr.panicking = true
			fr.panic = r
		}
	}()
	call(fr.i, fr, d.instr.Pos(), d.fn, d.args)
	ok = true
}

// passThrough: engine-level control panics are never visible to the target's defer/recover.
func passThrough(r any) bool {
	switch r.(type) {
	case pathAbort, engineFault, exitPanic, mergeAbort:
		return true
	case *runtime.TypeAssertionError:
		return true
	}
	return false
}

// runDefers executes fr's deferred function calls in LIFO order.
func (fr *frame) runDefers() {
	for d := fr.defers; d != nil; d = d.tail {
		fr.runDefer(d)
	}
	fr.defers = nil
	if fr.panicking {
		panic(fr.panic) // new panic, or still panicking
	}
}

// lookupMethod returns the method set for type typ, which may be one
// of the interpreter's fake types.
func lookupMethod(i *interpreter, typ types.Type, meth *types.Func) *ssa.Function {
	switch typ {
	case rtypeType:
		return i.rtypeMethods[meth.Id()]
	case errorType:
		return i.errorMethods[meth.Id()]
	}
	return i.prog.LookupMethod(typ, meth.Pkg(), meth.Name())
}

func derefPtr(fr *frame, pos token.Pos, p value) *value {
	a, ok := p.(*value)
	if !ok {
		panic(engineFault{fmt.Sprintf("dereference of %T", p)})
	}
	if a == nil {
		fr.i.ex.runtimePanic(fr, pos, "nil pointer dereference")
	}
	return a
}

// checkIndex asserts 0 <= idx < n for a concrete or symbolic idx.
func checkIndex(fr *frame, pos token.Pos, idx value, n int, it types.Type) {
	if s, ok := idx.(*symv); ok {
		// compare at 64 bits: sign- or zero-extend by the static index type, negative = huge
		t := s.term
		if s.bits < 64 {
			signed := true
			if it != nil {
				if b := basicOf(it); b != nil {
					_, signed = intBits(b)
				}
			}
			if signed {
				t = fmt.Sprintf("((_ sign_extend %d) %s)", 64-s.bits, t)
			} else {
				t = fmt.Sprintf("((_ zero_extend %d) %s)", 64-s.bits, t)
			}
		}
		safe := "(bvult " + t + " " + bvLit(uint64(n), 64) + ")"
		if n == 0 {
			safe = "false"
		}
		fr.i.ex.implicitAssert(fr, pos, "index out of range", safe)
		return
	}
	k := asInt64(idx)
	if u, isU := idx.(uint64); isU && u > uint64(1<<62) {
		k = -1
	}
	if k < 0 || k >= int64(n) {
		fr.i.ex.runtimePanic(fr, pos, fmt.Sprintf("index out of range [%d] with length %d", k, n))
	}
}

// symIndexElems resolves x[idx] for symbolic idx: scalars stay lazy (symptr), others fork.
func symIndexAddr(fr *frame, instr *ssa.IndexAddr, elems []value, idx *symv, et types.Type) value {
	checkIndex(fr, instr.Pos(), idx, len(elems), instr.Index.Type())
	if isScalarType(et) && len(elems) <= 512 {
		return &symptr{elems: elems, idx: idx}
	}
	if len(elems) > 64 {
		panic(engineFault{fmt.Sprintf("symbolic index into %d non-scalar elements at %s", len(elems), fr.fn)})
	}
	k := fr.i.ex.concretize(fr, idx, false, 64)
	return &elems[k]
}

// visitInstr interprets a single ssa.Instruction within the activation
// record frame.  It returns a continuation value indicating where to
// read the next instruction from.
func visitInstr(fr *frame, instr ssa.Instruction) continuation {
	fr.curInstr = instr
	switch instr := instr.(type) {
	case *ssa.DebugRef:
		// no-op

	case *ssa.UnOp:
		x := fr.get(instr.X)
		switch instr.Op {
		case token.MUL:
			if sp, ok := x.(*symptr); ok {
				fr.env[instr] = sp.load(fr, instr.Type())
			} else {
				fr.env[instr] = load(mustDeref(instr.X.Type()), derefPtr(fr, instr.Pos(), x))
			}
		case token.ARROW:
			ch, _ := x.(*symchan)
			fr.env[instr] = symRecv(fr, instr, ch)
		default:
			if sx, ok := x.(*symv); ok {
				fr.env[instr] = symUnop(fr, instr, sx)
			} else {
				fr.env[instr] = unop(instr, x)
			}
		}

	case *ssa.BinOp:
		x, y := fr.get(instr.X), fr.get(instr.Y)
		fr.env[instr] = evalBinop(fr, instr, x, y)

	case *ssa.Call:
		fn, args := prepareCall(fr, &instr.Call)
		fr.env[instr] = call(fr.i, fr, instr.Pos(), fn, args)

	case *ssa.ChangeInterface:
		fr.env[instr] = fr.get(instr.X)

	case *ssa.ChangeType:
		fr.env[instr] = fr.get(instr.X) // (can't fail)

	case *ssa.Convert:
		x := fr.get(instr.X)
		if sx, ok := x.(*symv); ok {
			fr.env[instr] = symConv(fr, instr.Type(), instr.X.Type(), sx)
		} else if ss, ok := x.(symstr); ok {
			fr.env[instr] = symstrConv(fr, instr.Type(), ss)
		} else {
			fr.env[instr] = conv(fr, instr.Type(), instr.X.Type(), x)
		}

	case *ssa.SliceToArrayPointer:
		fr.env[instr] = sliceToArrayPointer(instr.Type(), instr.X.Type(), fr.get(instr.X))

	case *ssa.MakeInterface:
		fr.env[instr] = iface{t: instr.X.Type(), v: fr.get(instr.X)}

	case *ssa.Extract:
		fr.env[instr] = fr.get(instr.Tuple).(tuple)[instr.Index]

	case *ssa.Slice:
		fr.env[instr] = slice(fr, instr, fr.get(instr.X), fr.get(instr.Low), fr.get(instr.High), fr.get(instr.Max))

	case *ssa.Return:
		switch len(instr.Results) {
		case 0:
		case 1:
			fr.result = fr.get(instr.Results[0])
		default:
			var res []value
			for _, r := range instr.Results {
				res = append(res, fr.get(r))
			}
			fr.result = tuple(res)
		}
		fr.block = nil
		return kReturn

	case *ssa.RunDefers:
		fr.runDefers()

	case *ssa.Panic:
		panic(targetPanic{fr.get(instr.X)})

	case *ssa.Send:
		ch, _ := fr.get(instr.Chan).(*symchan)
		symSend(fr, instr.Pos(), ch, fr.get(instr.X))

	case *ssa.Store:
		addr := fr.get(instr.Addr)
		if sp, ok := addr.(*symptr); ok {
			sp.store(fr, fr.get(instr.Val))
		} else {
			store(fr.i.ex, mustDeref(instr.Addr.Type()), derefPtr(fr, instr.Pos(), addr), fr.get(instr.Val))
		}

	case *ssa.If:
		cond := fr.get(instr.Cond)
		if sc, ok := cond.(*symv); ok {
			if mergeRegion(fr, instr, sc) {
				return kJump
			}
		}
		succ := 1
		if symBranch(fr, cond, instr) {
			succ = 0
		}
		fr.prevBlock, fr.block = fr.block, fr.block.Succs[succ]
		return kJump

	case *ssa.Jump:
		fr.prevBlock, fr.block = fr.block, fr.block.Succs[0]
		return kJump

	case *ssa.Defer:
		fn, args := prepareCall(fr, &instr.Call)
		defers := &fr.defers
		if into := fr.get(instr.DeferStack); into != nil {
			defers = into.(**deferred)
		}
		*defers = &deferred{
			fn:    fn,
			args:  args,
			instr: instr,
			tail:  *defers,
		}

	case *ssa.Go:
		fn, args := prepareCall(fr, &instr.Call)
		sync := fr.i.spawnSync
		if f, ok := fn.(*ssa.Function); ok {
			if _, rep := fr.i.ex.replacements[fr.i.info(f).name]; rep {
				// a harness stub standing for the goroutine: it registers the peer's
				// contract on the channels it was handed and returns.
				sync = true
			}
		}
		if sync {
			call(fr.i, fr, instr.Pos(), fn, args)
		} else {
			fr.i.ex.spawn(fr, instr.Pos(), fn, args)
		}

	case *ssa.MakeChan:
		sz := fr.get(instr.Size)
		if _, ok := sz.(*symv); ok {
			panic(engineFault{"symbolic channel capacity"})
		}
		fr.env[instr] = &symchan{capacity: int(asInt64(sz)), pos: relPos(fr.i.ex.cfg, fr.i.prog.Fset, instr.Pos()), elem: instr.Type().Underlying().(*types.Chan).Elem()}

	case *ssa.Alloc:
		var addr *value
		if instr.Heap {
			// new
			addr = new(value)
			fr.env[instr] = addr
		} else {
			// local
			addr = fr.env[instr].(*value)
		}
		*addr = zero(mustDeref(instr.Type()))

	case *ssa.MakeSlice:
		ln := concreteLen(fr, instr.Pos(), fr.get(instr.Len), "makeslice: len out of range")
		cp := concreteLen(fr, instr.Pos(), fr.get(instr.Cap), "makeslice: cap out of range")
		if ln > cp {
			fr.i.ex.runtimePanic(fr, instr.Pos(), "makeslice: cap out of range")
		}
		slice := make([]value, cp)
		tElt := instr.Type().Underlying().(*types.Slice).Elem()
		for i := range slice {
			slice[i] = zero(tElt)
		}
		fr.env[instr] = slice[:ln]

	case *ssa.MakeMap:
		fr.env[instr] = makeMap(instr.Type().Underlying().(*types.Map).Key(), 0)

	case *ssa.Range:
		fr.env[instr] = rangeIter(fr, fr.get(instr.X))

	case *ssa.Next:
		fr.env[instr] = fr.get(instr.Iter).(iter).next()

	case *ssa.FieldAddr:
		p := derefPtr(fr, instr.Pos(), fr.get(instr.X))
		fr.env[instr] = &(*p).(structure)[instr.Field]

	case *ssa.Field:
		fr.env[instr] = fr.get(instr.X).(structure)[instr.Field]

	case *ssa.IndexAddr:
		x := fr.get(instr.X)
		idx := fr.get(instr.Index)
		var elems []value
		var et types.Type
		switch x := x.(type) {
		case []value:
			elems = x
			et = instr.X.Type().Underlying().(*types.Slice).Elem()
		case *value: // *array
			if x == nil {
				fr.i.ex.runtimePanic(fr, instr.Pos(), "nil pointer dereference")
			}
			elems = (*x).(array)
			et = mustDeref(instr.X.Type()).Underlying().(*types.Array).Elem()
		default:
			panic(engineFault{fmt.Sprintf("unexpected x type in IndexAddr: %T", x)})
		}
		if si, ok := idx.(*symv); ok {
			fr.env[instr] = symIndexAddr(fr, instr, elems, si, et)
			break
		}
		checkIndex(fr, instr.Pos(), idx, len(elems), instr.Index.Type())
		fr.env[instr] = &elems[asInt64(idx)]

	case *ssa.Index:
		x := fr.get(instr.X)
		idx := fr.get(instr.Index)
		var elems []value
		switch x := x.(type) {
		case array:
			elems = x
		case string:
			if si, ok := idx.(*symv); ok {
				checkIndex(fr, instr.Pos(), si, len(x), instr.Index.Type())
				fr.env[instr] = (&symptr{elems: []value(toSymstr(x)), idx: si}).load(fr, instr.Type())
			} else {
				checkIndex(fr, instr.Pos(), idx, len(x), instr.Index.Type())
				fr.env[instr] = x[asInt64(idx)]
			}
			return kNext
		case symstr:
			elems = x
		default:
			panic(engineFault{fmt.Sprintf("unexpected x type in Index: %T", x)})
		}
		checkIndex(fr, instr.Pos(), idx, len(elems), instr.Index.Type())
		if si, ok := idx.(*symv); ok {
			if isScalarType(instr.Type()) {
				fr.env[instr] = (&symptr{elems: elems, idx: si}).load(fr, instr.Type())
			} else {
				fr.env[instr] = elems[fr.i.ex.concretize(fr, si, false, 64)]
			}
		} else {
			fr.env[instr] = elems[asInt64(idx)]
		}

	case *ssa.Lookup:
		fr.env[instr] = lookup(fr, instr, fr.get(instr.X), fr.get(instr.Index))

	case *ssa.MapUpdate:
		m, _ := fr.get(instr.Map).(*omap)
		if m == nil {
			fr.i.ex.runtimePanic(fr, instr.Pos(), "assignment to entry in nil map")
		}
		m.insert(fr, fr.get(instr.Key), fr.get(instr.Value))

	case *ssa.TypeAssert:
		fr.env[instr] = typeAssert(fr, instr, fr.get(instr.X).(iface))

	case *ssa.MakeClosure:
		var bindings []value
		for _, binding := range instr.Bindings {
			bindings = append(bindings, fr.get(binding))
		}
		fr.env[instr] = &closure{instr.Fn.(*ssa.Function), bindings}

	case *ssa.Phi:
		log.Fatal("unreachable") // phis are processed at block entry

	case *ssa.Select:
		fr.env[instr] = symSelect(fr, instr)

	default:
		panic(engineFault{fmt.Sprintf("unexpected instruction: %T", instr)})
	}

	return kNext
}

// concreteLen makes an allocation length concrete (forking over small feasible values) after
// asserting that it cannot be negative or huge.
func concreteLen(fr *frame, pos token.Pos, v value, what string) int {
	ex := fr.i.ex
	if s, ok := v.(*symv); ok {
		lim := bvLit(1<<31, s.bits)
		if s.bits < 32 {
			lim = bvLit((1<<uint(s.bits-1))-1, s.bits)
		}
		ex.implicitAssert(fr, pos, what, "(bvult "+s.term+" "+lim+")")
		const kAlloc = 16
		// cut: only lengths <= kAlloc are explored
		cut := "(bvule " + s.term + " " + bvLit(kAlloc, s.bits) + ")"
		if r, _ := ex.check(not1(cut), false); r != "unsat" {
			ex.noteAssumption(fmt.Sprintf("allocation lengths in (%d, 2^31] not explored (cut)", kAlloc))
			ex.addCond(cut)
		}
		return int(ex.concretize(fr, s, false, kAlloc+1))
	}
	n := asInt64(v)
	if u, isU := v.(uint64); isU && u > 1<<62 {
		n = -1
	}
	if n < 0 || n > 1<<31 {
		ex.runtimePanic(fr, pos, what)
	}
	return int(n)
}

func evalBinop(fr *frame, instr *ssa.BinOp, x, y value) value {
	if _, px := x.(poisonByte); px {
		panic(engineFault{"the formatted text of a symbolic number is used in a computation (formatting is stubbed)"})
	}
	if _, py := y.(poisonByte); py {
		panic(engineFault{"the formatted text of a symbolic number is used in a computation (formatting is stubbed)"})
	}
	_, sx := x.(*symv)
	_, sy := y.(*symv)
	_, ssx := x.(symstr)
	_, ssy := y.(symstr)
	switch {
	case ssx || ssy:
		return symstrBinop(fr, instr, x, y)
	case sx || sy:
		return symBinop(fr, instr, x, y)
	}
	if (instr.Op == token.EQL || instr.Op == token.NEQ) && (keyIsSym(x) || keyIsSym(y)) {
		r := symEquals(fr, instr.X.Type(), x, y)
		if instr.Op == token.NEQ {
			switch b := r.(type) {
			case bool:
				return !b
			case *symv:
				return mkBool(not1(b.term))
			}
		}
		return r
	}
	switch instr.Op {
	case token.QUO, token.REM:
		if u, _, ok := concreteIntBits(y); ok && u == 0 {
			fr.i.ex.runtimePanic(fr, instr.Pos(), "integer divide by zero")
		}
	case token.SHL, token.SHR:
		if _, nonneg := asUnsigned(y); !nonneg {
			fr.i.ex.runtimePanic(fr, instr.Pos(), "negative shift amount")
		}
	}
	return binop(instr.Op, instr.X.Type(), x, y)
}

// prepareCall determines the function value and argument values for a
// function call in a Call, Go or Defer instruction, performing
// interface method lookup if needed.
func prepareCall(fr *frame, call *ssa.CallCommon) (fn value, args []value) {
	v := fr.get(call.Value)
	if call.Method == nil {
		// Function call.
		fn = v
	} else {
		// Interface method invocation.
		recv := v.(iface)
		if recv.t == nil {
			fr.i.ex.runtimePanic(fr, call.Pos(), "nil pointer dereference (method invoked on nil interface)")
		}
		if f := lookupMethod(fr.i, recv.t, call.Method); f == nil {
			// Unreachable in well-typed programs.
			panic(engineFault{fmt.Sprintf("method set for dynamic type %v does not contain %s", recv.t, call.Method)})
		} else {
			fn = f
		}
		args = append(args, recv.v)
	}
	for _, arg := range call.Args {
		args = append(args, fr.get(arg))
	}
	return
}

// call interprets a call to a function (function, builtin or closure)
// fn with arguments args, returning its result.
// callpos is the position of the callsite.
func call(i *interpreter, caller *frame, callpos token.Pos, fn value, args []value) value {
	switch fn := fn.(type) {
	case *ssa.Function:
		if fn == nil {
			if caller != nil {
				i.ex.runtimePanic(caller, callpos, "nil pointer dereference (call of nil func)")
			}
			panic(engineFault{"call of nil function"})
		}
		return callSSA(i, caller, callpos, fn, args, nil)
	case *closure:
		return callSSA(i, caller, callpos, fn.Fn, args, fn.Env)
	case *ssa.Builtin:
		return callBuiltin(caller, fn, args)
	}
	panic(engineFault{fmt.Sprintf("cannot call %T", fn)})
}

func (i *interpreter) info(fn *ssa.Function) *fnInfo {
	if fi, ok := i.fninfo[fn]; ok {
		return fi
	}
	fi := &fnInfo{name: fn.String()}
	fi.pkg = pkgOf(fn)
	if fn.Parent() == nil {
		fi.ext = externals[fi.name]
		fi.isVerif = strings.HasPrefix(fn.Name(), "verif") && fn.Signature.Recv() == nil
		fi.isInit = fn.Name() == "init" && fn.Pkg != nil && fn.Signature.Recv() == nil && fn == fn.Pkg.Func("init")
	}
	if fi.pkg != nil {
		fi.repo = strings.HasPrefix(fi.pkg.Pkg.Path(), "github.com/johnkerl/miller")
	}
	i.fninfo[fn] = fi
	return fi
}

// callSSA interprets a call to function fn with arguments args,
// and lexical environment env, returning its result.
// callpos is the position of the callsite.
func callSSA(i *interpreter, caller *frame, callpos token.Pos, fn *ssa.Function, args []value, env []value) value {
	fi := i.info(fn)
	if i.mode&EnableTracing != 0 {
		fmt.Fprintf(os.Stderr, "Entering %s\n", fi.name)
		defer fmt.Fprintf(os.Stderr, "Leaving %s\n", fi.name)
	}
	ex := i.ex
	if len(ex.replacements) > 0 {
		if r, ok := ex.replacements[fi.name]; ok {
			return call(i, caller, callpos, r, args)
		}
	}
	if fi.isInit {
		if caller != nil && caller.fn.Pkg != fn.Pkg {
			return nil // dependency initialisers are run lazily, on first touch
		}
	} else if fi.pkg != nil && !i.inited[fi.pkg] {
		ensureInit(i, fi.pkg)
	}
	fr := &frame{
		i:      i,
		caller: caller, // for panic/recover
		fn:     fn,
	}
	if fn.Parent() == nil {
		if fi.isVerif {
			if caller != nil {
				fr.curInstr = caller.curInstr
			}
			if v, ok := symIntrinsic(fr, fn, args); ok {
				return v
			}
		}
		if fi.ext != nil {
			if r := fi.ext(fr, args); r != (declined{}) {
				return r
			}
		}
		if len(args) > 0 {
			if _, isHost := args[0].(hostval); isHost {
				if r, ok := hostMethod(fr, fn, args); ok {
					return r
				}
			}
		}
		if fn.Blocks == nil {
			if v, ok := genericExternal(fr, fi, args); ok {
				return v
			}
			where := ""
			for f, n := caller, 0; f != nil && n < 8; f, n = f.caller, n+1 {
				where += " < " + f.fn.String()
			}
			panic(engineFault{"no code for function: " + fi.name + where})
		}
	}
	if fi.repo && ex.curFn != nil && i.initDepth == 0 {
		ex.curFn[fn] = true
	}

	// generic function body?
	if fn.TypeParams().Len() > 0 && len(fn.TypeArgs()) == 0 {
		panic(engineFault{"generic function without instantiation: " + fi.name})
	}

	fr.env = make(map[ssa.Value]value)
	fr.block = fn.Blocks[0]
	fr.locals = make([]value, len(fn.Locals))
	for i, l := range fn.Locals {
		fr.locals[i] = zero(mustDeref(l.Type()))
		fr.env[l] = &fr.locals[i]
	}
	for i, p := range fn.Params {
		fr.env[p] = args[i]
	}
	for i, fv := range fn.FreeVars {
		fr.env[fv] = env[i]
	}
	for fr.block != nil {
		runFrame(fr)
	}
	return fr.result
}

// runFrame executes SSA instructions starting at fr.block and
// continuing until a return, a panic, or a recovered panic.
func runFrame(fr *frame) {
	defer func() {
		if fr.block == nil {
			return // normal return
		}
		r := recover()
		if passThrough(r) {
			panic(r)
		}
		if fr.fn.Recover == nil && fr.defers == nil {
			// nothing can recover here: keep unwinding
			panic(r)
		}
		fr.panicking = true
		fr.panic = r
		fr.runDefers()
		fr.block = fr.fn.Recover
	}()

	ex := fr.i.ex
	for {
		nonPhis := executePhis(fr)
		for _, instr := range nonPhis {
			ex.steps++
			if ex.steps > ex.cfg.MaxSteps && fr.i.initDepth == 0 {
				ex.stepBudget(fr)
			}
			if fr.i.mode&EnableTracing != 0 {
				if v, ok := instr.(ssa.Value); ok {
					fmt.Fprintln(os.Stderr, "\t", v.Name(), "=", instr)
				} else {
					fmt.Fprintln(os.Stderr, "\t", instr)
				}
			}
			if visitInstr(fr, instr) == kReturn {
				return
			}
			// Inv: kNext (continue) or kJump (last instr)
		}
	}
}

func (ex *explorer) stepBudget(fr *frame) {
	_, m := ex.check("", true)
	p := relPos(ex.cfg, fr.i.prog.Fset, fr.fn.Pos())
	ex.recordViolation(fr, "unwind", "steps@"+p+"("+fr.fn.Name()+")", p, fmt.Sprintf("more than %d SSA steps on one path (possible non-termination)", ex.cfg.MaxSteps), m)
	panic(pathAbort{"step budget"})
}

// executePhis executes the phi-nodes at the start of the current
// block and returns the non-phi instructions.
func executePhis(fr *frame) []ssa.Instruction {
	firstNonPhi := -1
	for i, instr := range fr.block.Instrs {
		if _, ok := instr.(*ssa.Phi); !ok {
			firstNonPhi = i
			break
		}
	}
	// Inv: 0 <= firstNonPhi; every block contains a non-phi.

	nonPhis := fr.block.Instrs[firstNonPhi:]
	if fr.skipPhis {
		// φ values were preset by region merging
		fr.skipPhis = false
		return nonPhis
	}
	if firstNonPhi > 0 {
		phis := fr.block.Instrs[:firstNonPhi]
		predIndex := slices.Index(fr.block.Preds, fr.prevBlock)
		fr.phitemps = fr.phitemps[:0]
		for _, phi := range phis {
			phi := phi.(*ssa.Phi)
			fr.phitemps = append(fr.phitemps, fr.get(phi.Edges[predIndex]))
		}
		for i, phi := range phis {
			fr.env[phi.(*ssa.Phi)] = fr.phitemps[i]
		}
	}
	return nonPhis
}

// doRecover implements the recover() built-in.
func doRecover(caller *frame) value {
	// recover() must be exactly one level beneath the deferred
	// function (two levels beneath the panicking function) to
	// have any effect.  Thus we ignore both "defer recover()" and
	// "defer f() -> g() -> recover()".
	if caller.i.mode&DisableRecover == 0 &&
		caller != nil && !caller.panicking &&
		caller.caller != nil && caller.caller.panicking {
		caller.caller.panicking = false
		p := caller.caller.panic
		caller.caller.panic = nil

		switch p := p.(type) {
		case targetPanic:
			// The target program explicitly called panic().
			return p.v
		case targetRuntimePanic:
			return iface{caller.i.runtimeErrorString, "runtime error: " + p.what}
		case runtime.Error:
			// The interpreter encountered a runtime error.
			return iface{caller.i.runtimeErrorString, p.Error()}
		case string:
			// The interpreter explicitly called panic().
			return iface{caller.i.runtimeErrorString, p}
		default:
			panic(engineFault{fmt.Sprintf("unexpected panic type %T in target call to recover()", p)})
		}
	}
	return iface{}
}

func pkgOf(fn *ssa.Function) *ssa.Package {
	if fn.Pkg != nil {
		return fn.Pkg
	}
	if o := fn.Origin(); o != nil && o.Pkg != nil {
		return o.Pkg
	}
	if p := fn.Parent(); p != nil {
		return pkgOf(p)
	}
	return nil
}

func denyInit(path string) bool {
	switch path {
	case "runtime", "unsafe", "reflect", "syscall", "os", "sync", "sync/atomic", "internal/reflectlite",
		"os/signal", "os/exec", "net", "net/http", "crypto/rand", "math/rand", "math/rand/v2", "log",
		"internal/godebug", "os/user", "testing", "flag", "encoding/json", "mime", "crypto/tls", "crypto/x509":
		return true
	}
	return strings.HasPrefix(path, "internal/") || strings.HasPrefix(path, "runtime/") ||
		strings.HasPrefix(path, "crypto/") || strings.HasPrefix(path, "net/") || strings.HasPrefix(path, "vendor/") ||
		strings.HasPrefix(path, "golang.org/x/sys") || strings.HasPrefix(path, "golang.org/x/term") ||
		strings.HasPrefix(path, "golang.org/x/text") || strings.HasPrefix(path, "github.com/klauspost")
}

// ensureInit runs a package's own initialiser on first touch, concretely, with the undo log
// suspended (its effects persist for the life of the worker).
func ensureInit(i *interpreter, pkg *ssa.Package) {
	if pkg == nil || i.inited[pkg] {
		return
	}
	i.inited[pkg] = true
	if denyInit(pkg.Pkg.Path()) {
		return
	}
	if f := pkg.Func("init"); f != nil {
		ex := i.ex
		saved := ex.logging
		ex.logging = false
		i.initDepth++
		func() {
			defer func() {
				i.initDepth--
				ex.logging = saved
				if r := recover(); r != nil {
					if os.Getenv("GOSE_DEBUG") != "" {
						fmt.Fprintf(os.Stderr, "gose: init of %s aborted: %v (globals after this point stay zero)\n", pkg.Pkg.Path(), r)
					}
					ex.res.mu.Lock()
					ex.res.assum[fmt.Sprintf("init of %s aborted: %v", pkg.Pkg.Path(), truncate(fmt.Sprint(r), 160))] = true
					ex.res.mu.Unlock()
				}
			}()
			call(i, nil, token.NoPos, f, nil)
		}()
	}
}
