// Copyright 2013 The Go Authors. All rights reserved.
// Use of this source code is governed by a BSD-style
// license that can be found in the LICENSE file.

package interp

// Emulated functions that we cannot interpret because they are
// external or because they use "unsafe" or "reflect" operations.

import (
	"maps"
	"os"
	"runtime"
)

type externalFn func(fr *frame, args []value) value

// TODO(adonovan): fix: reflect.Value abstracts an lvalue or an
// rvalue; Set() causes mutations that can be observed via aliases.
// We have not captured that correctly here.

// Key strings are from Function.String().
var externals = make(map[string]externalFn)

func init() {
	// That little dot ۰ is an Arabic zero numeral (U+06F0), categories [Nd].
	maps.Copy(externals, map[string]externalFn{
		"(reflect.Value).Bool":            ext۰reflect۰Value۰Bool,
		"(reflect.Value).CanAddr":         ext۰reflect۰Value۰CanAddr,
		"(reflect.Value).CanInterface":    ext۰reflect۰Value۰CanInterface,
		"(reflect.Value).Elem":            ext۰reflect۰Value۰Elem,
		"(reflect.Value).Field":           ext۰reflect۰Value۰Field,
		"(reflect.Value).Float":           ext۰reflect۰Value۰Float,
		"(reflect.Value).Index":           ext۰reflect۰Value۰Index,
		"(reflect.Value).Int":             ext۰reflect۰Value۰Int,
		"(reflect.Value).Interface":       ext۰reflect۰Value۰Interface,
		"(reflect.Value).IsNil":           ext۰reflect۰Value۰IsNil,
		"(reflect.Value).IsValid":         ext۰reflect۰Value۰IsValid,
		"(reflect.Value).Kind":            ext۰reflect۰Value۰Kind,
		"(reflect.Value).Len":             ext۰reflect۰Value۰Len,
		"(reflect.Value).MapIndex":        ext۰reflect۰Value۰MapIndex,
		"(reflect.Value).MapKeys":         ext۰reflect۰Value۰MapKeys,
		"(reflect.Value).NumField":        ext۰reflect۰Value۰NumField,
		"(reflect.Value).NumMethod":       ext۰reflect۰Value۰NumMethod,
		"(reflect.Value).Pointer":         ext۰reflect۰Value۰Pointer,
		"(reflect.Value).Set":             ext۰reflect۰Value۰Set,
		"(reflect.Value).String":          ext۰reflect۰Value۰String,
		"(reflect.Value).Type":            ext۰reflect۰Value۰Type,
		"(reflect.Value).Uint":            ext۰reflect۰Value۰Uint,
		"(reflect.error).Error":           ext۰reflect۰error۰Error,
		"(reflect.rtype).Bits":            ext۰reflect۰rtype۰Bits,
		"(reflect.rtype).Elem":            ext۰reflect۰rtype۰Elem,
		"(reflect.rtype).Field":           ext۰reflect۰rtype۰Field,
		"(reflect.rtype).In":              ext۰reflect۰rtype۰In,
		"(reflect.rtype).Kind":            ext۰reflect۰rtype۰Kind,
		"(reflect.rtype).NumField":        ext۰reflect۰rtype۰NumField,
		"(reflect.rtype).NumIn":           ext۰reflect۰rtype۰NumIn,
		"(reflect.rtype).NumMethod":       ext۰reflect۰rtype۰NumMethod,
		"(reflect.rtype).NumOut":          ext۰reflect۰rtype۰NumOut,
		"(reflect.rtype).Out":             ext۰reflect۰rtype۰Out,
		"(reflect.rtype).Size":            ext۰reflect۰rtype۰Size,
		"(reflect.rtype).String":          ext۰reflect۰rtype۰String,
		"os.Exit":                         ext۰os۰Exit,
		"os.Getenv":                       ext۰os۰Getenv,
		"reflect.New":                     ext۰reflect۰New,
		"reflect.SliceOf":                 ext۰reflect۰SliceOf,
		"reflect.TypeOf":                  ext۰reflect۰TypeOf,
		"reflect.ValueOf":                 ext۰reflect۰ValueOf,
		"reflect.Zero":                    ext۰reflect۰Zero,
		"runtime.Breakpoint":              ext۰runtime۰Breakpoint,
		"runtime.GC":                      ext۰runtime۰GC,
		"runtime.GOMAXPROCS":              ext۰runtime۰GOMAXPROCS,
		"runtime.GOROOT":                  ext۰runtime۰GOROOT,
		"runtime.Goexit":                  ext۰runtime۰Goexit,
		"runtime.Gosched":                 ext۰runtime۰Gosched,
		"runtime.NumCPU":                  ext۰runtime۰NumCPU,
		"time.Sleep":                      ext۰time۰Sleep,
	})
	registerSymExternals()
}

func ext۰runtime۰Breakpoint(fr *frame, args []value) value {
	runtime.Breakpoint()
	return nil
}

func ext۰runtime۰GOMAXPROCS(fr *frame, args []value) value {
	// Ignore args[0]; don't let the interpreted program
	// set the interpreter's GOMAXPROCS!
	return runtime.GOMAXPROCS(0)
}

func ext۰runtime۰Goexit(fr *frame, args []value) value {
	panic(pathAbort{"goexit"})
}

func ext۰runtime۰GOROOT(fr *frame, args []value) value {
	return runtime.GOROOT()
}

func ext۰runtime۰GC(fr *frame, args []value) value {
	runtime.GC()
	return nil
}

func ext۰runtime۰Gosched(fr *frame, args []value) value {
	runtime.Gosched()
	return nil
}

func ext۰runtime۰NumCPU(fr *frame, args []value) value {
	return runtime.NumCPU()
}

func ext۰time۰Sleep(fr *frame, args []value) value {
	return nil
}

func ext۰os۰Getenv(fr *frame, args []value) value {
	name := args[0].(string)
	switch name {
	case "GOSSAINTERP":
		return "1"
	}
	return os.Getenv(name)
}

func ext۰os۰Exit(fr *frame, args []value) value {
	if s, ok := args[0].(*symv); ok {
		return ext۰os۰Exit(fr, []value{int(fr.i.ex.concretize(fr, s, true, 8))})
	}
	panic(exitPanic(args[0].(int)))
}

