package interp

// fmt, sync, sync/atomic, sort and time environment.

import (
	"fmt"
	"go/token"
	"go/types"
	"strings"

	"golang.org/x/tools/go/ssa"
)

const symPlaceholder = "⟨sym⟩"

// fmtArg converts an interface-boxed interpreter value into a host value for fmt.
func fmtArg(fr *frame, a value) any {
	it, ok := a.(iface)
	if !ok {
		return fmt.Sprintf("<%T>", a)
	}
	if it.t == nil {
		return nil
	}
	// error / Stringer: call the interpreted method
	for _, m := range []string{"Error", "String"} {
		obj, _, _ := types.LookupFieldOrMethod(it.t, true, nil, m)
		if f, ok := obj.(*types.Func); ok {
			sig := f.Type().(*types.Signature)
			if sig.Params().Len() == 0 && sig.Results().Len() == 1 && types.Identical(sig.Results().At(0).Type(), types.Typ[types.String]) {
				if fn := fr.i.prog.LookupMethod(it.t, f.Pkg(), f.Name()); fn != nil {
					if p, isPtr := it.v.(*value); isPtr && p == nil {
						return "<nil>"
					}
					r := call(fr.i, fr, token.NoPos, fn, []value{it.v})
					switch s := r.(type) {
					case string:
						return s
					case symstr:
						fr.i.ex.noteAssumption("formatting stub: symbolic text rendered as a placeholder by fmt")
						fr.i.ex.fmtSawSymbolic = true
						return symPlaceholder
					}
				}
			}
		}
	}
	switch v := it.v.(type) {
	case bool, int, int8, int16, int32, int64, uint, uint8, uint16, uint32, uint64, uintptr, float32, float64, string:
		return v
	case *symv:
		if v.sort == sBV {
			signed := true
			if b, isBasic := it.t.Underlying().(*types.Basic); isBasic && b.Info()&types.IsUnsigned != 0 {
				signed = false
			}
			if c, ok := fr.i.ex.tryConcretizeSmall(fr, v, signed); ok {
				if !signed {
					return uint64(c)
				}
				return c
			}
		}
		fr.i.ex.noteAssumption("formatting stub: symbolic values rendered as an opaque text by fmt")
		fr.i.ex.fmtSawSymbolic = true
		return symPlaceholder
	case symstr:
		fr.i.ex.noteAssumption("formatting stub: symbolic values rendered as an opaque text by fmt")
		fr.i.ex.fmtSawSymbolic = true
		return symPlaceholder
	case []value:
		allBytes := len(v) > 0
		bs := make([]byte, 0, len(v))
		for _, e := range v {
			if b, ok := e.(uint8); ok {
				bs = append(bs, b)
			} else {
				allBytes = false
				break
			}
		}
		if allBytes {
			return bs
		}
		out := make([]any, len(v))
		for k, e := range v {
			switch e.(type) {
			case bool, int, int8, int16, int32, int64, uint, uint8, uint16, uint32, uint64, uintptr, float32, float64, string:
				out[k] = e
			default:
				out[k] = fmt.Sprintf("<%T>", e)
			}
		}
		return out
	case *value:
		if v == nil {
			return "<nil>"
		}
		return fmt.Sprintf("%p", v)
	}
	return fmt.Sprintf("<%s>", it.t)
}

func fmtArgs(fr *frame, a value) []any {
	vs, _ := a.([]value)
	out := make([]any, len(vs))
	for k, v := range vs {
		out[k] = fmtArg(fr, v)
	}
	return out
}

func fmtFormat(fr *frame, a value) (string, bool) {
	switch s := a.(type) {
	case string:
		return s, true
	case symstr:
		if c, ok := normStr(s).(string); ok {
			return c, true
		}
	}
	fr.i.ex.noteAssumption("formatting stub: symbolic format string rendered as a placeholder")
	return "", false
}

// writeTo sends text to an io.Writer value of the program under analysis.
func writeTo(fr *frame, w value, text string) {
	it, ok := w.(iface)
	if !ok || it.t == nil {
		fr.i.ex.runtimePanic(fr, fr.callPos(), "nil pointer dereference (nil io.Writer)")
	}
	if p, isPtr := it.v.(*value); isPtr && p == nil {
		// os.Stdout / os.Stderr (package os is not initialised): output dropped
		if strings.HasSuffix(it.t.String(), "os.File") {
			fr.i.ex.event("W:" + fmt.Sprintf("%d", len(text)))
			return
		}
	}
	obj, _, _ := types.LookupFieldOrMethod(it.t, true, nil, "Write")
	f, ok := obj.(*types.Func)
	if !ok {
		panic(engineFault{"writer without Write method: " + it.t.String()})
	}
	fn := fr.i.prog.LookupMethod(it.t, f.Pkg(), "Write")
	bs := make([]value, len(text))
	for k := 0; k < len(text); k++ {
		bs[k] = text[k]
	}
	if fr.i.ex.fmtSawSymbolic || strings.Contains(text, symPlaceholder) {
		// the text of a symbolic value: one opaque byte (may be moved and printed, not inspected)
		fr.i.ex.fmtSawSymbolic = false
		bs = []value{poisonByte{}}
	}
	call(fr.i, fr, token.NoPos, fn, []value{it.v, bs})
}

func registerFmt() {
	sprintf := func(fr *frame, format value, rest value) string {
		f, ok := fmtFormat(fr, format)
		if !ok {
			return symPlaceholder
		}
		return fmt.Sprintf(f, fmtArgs(fr, rest)...)
	}
	// a text built from symbolic values is opaque: usable as a message, not in computations
	// (whether a symbolic operand was met is a flag, not a search for the placeholder in the result:
	// a verb such as %x renders the placeholder itself)
	opaque := func(fr *frame, build func() string) value {
		fr.i.ex.fmtSawSymbolic = false
		s := build()
		if fr.i.ex.fmtSawSymbolic || strings.Contains(s, symPlaceholder) {
			fr.i.ex.fmtSawSymbolic = false
			return poisonStr()
		}
		return s
	}
	externals["fmt.Sprintf"] = func(fr *frame, args []value) value {
		return opaque(fr, func() string { return sprintf(fr, args[0], args[1]) })
	}
	externals["fmt.Sprint"] = func(fr *frame, args []value) value {
		return opaque(fr, func() string { return fmt.Sprint(fmtArgs(fr, args[0])...) })
	}
	externals["fmt.Sprintln"] = func(fr *frame, args []value) value {
		return opaque(fr, func() string { return fmt.Sprintln(fmtArgs(fr, args[0])...) })
	}
	externals["fmt.Errorf"] = func(fr *frame, args []value) value {
		msg := opaque(fr, func() string { return sprintf(fr, args[0], args[1]) })
		pkg := fr.i.prog.ImportedPackage("errors")
		return call(fr.i, fr, token.NoPos, pkg.Func("New"), []value{msg})
	}
	externals["fmt.Printf"] = func(fr *frame, args []value) value {
		s := sprintf(fr, args[0], args[1])
		fr.i.ex.event(fmt.Sprintf("STDOUT:%q", s))
		return tuple{len(s), iface{}}
	}
	externals["fmt.Print"] = func(fr *frame, args []value) value {
		s := fmt.Sprint(fmtArgs(fr, args[0])...)
		fr.i.ex.event(fmt.Sprintf("STDOUT:%q", s))
		return tuple{len(s), iface{}}
	}
	externals["fmt.Println"] = func(fr *frame, args []value) value {
		s := fmt.Sprintln(fmtArgs(fr, args[0])...)
		fr.i.ex.event(fmt.Sprintf("STDOUT:%q", s))
		return tuple{len(s), iface{}}
	}
	externals["fmt.Fprintf"] = func(fr *frame, args []value) value {
		fr.i.ex.fmtSawSymbolic = false
		s := sprintf(fr, args[1], args[2])
		writeTo(fr, args[0], s)
		return tuple{len(s), iface{}}
	}
	externals["fmt.Fprint"] = func(fr *frame, args []value) value {
		fr.i.ex.fmtSawSymbolic = false
		s := fmt.Sprint(fmtArgs(fr, args[1])...)
		writeTo(fr, args[0], s)
		return tuple{len(s), iface{}}
	}
	externals["fmt.Fprintln"] = func(fr *frame, args []value) value {
		fr.i.ex.fmtSawSymbolic = false
		s := fmt.Sprintln(fmtArgs(fr, args[1])...)
		writeTo(fr, args[0], s)
		return tuple{len(s), iface{}}
	}
}

// ---------------- sync, sync/atomic

type sideKey struct {
	p    *value
	kind string
}

func (i *interpreter) side(fr *frame, p *value, kind string) *int64 {
	if i.sideTab == nil {
		i.sideTab = map[sideKey]*int64{}
	}
	k := sideKey{p, kind}
	c, ok := i.sideTab[k]
	if !ok {
		c = new(int64)
		i.sideTab[k] = c
	}
	return c
}

func (i *interpreter) sideSet(c *int64, v int64) {
	old := *c
	i.ex.logUndo(func() { *c = old })
	*c = v
}

func structFieldIndex(t types.Type, name string) int {
	st, ok := t.Underlying().(*types.Struct)
	if !ok {
		return -1
	}
	for k := 0; k < st.NumFields(); k++ {
		if st.Field(k).Name() == name {
			return k
		}
	}
	return -1
}

func registerSync() {
	nop := func(fr *frame, args []value) value { return nil }
	for _, n := range []string{"(*sync.Mutex).Lock", "(*sync.Mutex).Unlock", "(*sync.RWMutex).Lock", "(*sync.RWMutex).Unlock",
		"(*sync.RWMutex).RLock", "(*sync.RWMutex).RUnlock", "(*internal/sync.Mutex).Lock", "(*internal/sync.Mutex).Unlock",
		"runtime.Gosched", "(*sync.Cond).Broadcast", "(*sync.Cond).Signal"} {
		externals[n] = nop
	}
	externals["(*sync.Mutex).TryLock"] = func(fr *frame, args []value) value { return true }
	externals["(*sync.Once).Do"] = func(fr *frame, args []value) value {
		p := args[0].(*value)
		c := fr.i.side(fr, p, "once")
		if *c == 0 {
			fr.i.sideSet(c, 1)
			call(fr.i, fr, fr.callPos(), args[1], nil)
		}
		return nil
	}
	externals["(*sync.Once).doSlow"] = externals["(*sync.Once).Do"]
	externals["(*sync.WaitGroup).Add"] = func(fr *frame, args []value) value {
		c := fr.i.side(fr, args[0].(*value), "wg")
		fr.i.sideSet(c, *c+asInt64(args[1]))
		if *c < 0 {
			panic(targetPanic{iface{types.Typ[types.String], "sync: negative WaitGroup counter"}})
		}
		fr.i.ex.bump()
		return nil
	}
	externals["(*sync.WaitGroup).Done"] = func(fr *frame, args []value) value {
		c := fr.i.side(fr, args[0].(*value), "wg")
		fr.i.sideSet(c, *c-1)
		if *c < 0 {
			panic(targetPanic{iface{types.Typ[types.String], "sync: negative WaitGroup counter"}})
		}
		fr.i.ex.bump()
		return nil
	}
	externals["(*sync.WaitGroup).Wait"] = func(fr *frame, args []value) value {
		c := fr.i.side(fr, args[0].(*value), "wg")
		for *c > 0 {
			if !fr.i.ex.yieldBlocked(fr, "wg.Wait", nil) {
				fr.i.ex.blockedForever(fr, fr.callPos(), "WaitGroup.Wait blocks forever")
			}
		}
		return nil
	}
	externals["(*sync.Pool).Get"] = func(fr *frame, args []value) value {
		p := args[0].(*value)
		st := (*p).(structure)
		// field New is the last exported field
		fn := fr.fn
		recvT := mustDeref(fn.Signature.Recv().Type())
		k := structFieldIndex(recvT, "New")
		if k >= 0 {
			if f := st[k]; f != nil {
				switch ff := f.(type) {
				case *ssa.Function:
					if ff != nil {
						return call(fr.i, fr, fr.callPos(), ff, nil)
					}
				case *closure:
					return call(fr.i, fr, fr.callPos(), ff, nil)
				}
			}
		}
		return iface{}
	}
	externals["(*sync.Pool).Put"] = nop

	// sync/atomic leaf functions operate on plain cells (one goroutine runs at a time)
	for _, ty := range []string{"Int32", "Int64", "Uint32", "Uint64", "Uintptr", "Pointer"} {
		ty := ty
		externals["sync/atomic.Load"+ty] = func(fr *frame, args []value) value { return *derefPtr(fr, fr.callPos(), args[0]) }
		externals["sync/atomic.Store"+ty] = func(fr *frame, args []value) value {
			a := derefPtr(fr, fr.callPos(), args[0])
			fr.i.ex.logStore(a)
			*a = args[1]
			return nil
		}
		externals["sync/atomic.Swap"+ty] = func(fr *frame, args []value) value {
			a := derefPtr(fr, fr.callPos(), args[0])
			old := *a
			fr.i.ex.logStore(a)
			*a = args[1]
			return old
		}
		externals["sync/atomic.CompareAndSwap"+ty] = func(fr *frame, args []value) value {
			a := derefPtr(fr, fr.callPos(), args[0])
			if isSym(*a) || isSym(args[1]) {
				panic(engineFault{"atomic CAS on symbolic value"})
			}
			if *a == args[1] {
				fr.i.ex.logStore(a)
				*a = args[2]
				return true
			}
			return false
		}
		if ty != "Pointer" {
			externals["sync/atomic.Add"+ty] = func(fr *frame, args []value) value {
				a := derefPtr(fr, fr.callPos(), args[0])
				if isSym(*a) || isSym(args[1]) {
					panic(engineFault{"atomic Add on symbolic value"})
				}
				n := binop(token.ADD, nil, *a, args[1])
				fr.i.ex.logStore(a)
				*a = n
				return n
			}
			externals["sync/atomic.And"+ty] = func(fr *frame, args []value) value {
				a := derefPtr(fr, fr.callPos(), args[0])
				old := *a
				fr.i.ex.logStore(a)
				*a = binop(token.AND, nil, *a, args[1])
				return old
			}
			externals["sync/atomic.Or"+ty] = func(fr *frame, args []value) value {
				a := derefPtr(fr, fr.callPos(), args[0])
				old := *a
				fr.i.ex.logStore(a)
				*a = binop(token.OR, nil, *a, args[1])
				return old
			}
		}
	}
}

// ---------------- sort

func registerSort() {
	// sort.Slice / SliceStable: insertion sort calling the real less — what the standard
	// library itself runs for n < 12 (stable for every n).
	slice := func(fr *frame, args []value) value {
		it := args[0].(iface)
		s, ok := it.v.([]value)
		if !ok {
			panic(engineFault{"sort.Slice on non-slice"})
		}
		less := args[1]
		if len(s) > 12 {
			fr.i.ex.noteAssumption("sort.Slice modelled as insertion sort beyond 12 elements")
		}
		for a := 1; a < len(s); a++ {
			for b := a; b > 0; b-- {
				r := call(fr.i, fr, fr.callPos(), less, []value{b, b - 1})
				if !symBranch(fr, r, nil) {
					break
				}
				fr.i.ex.logStore(&s[b])
				fr.i.ex.logStore(&s[b-1])
				s[b], s[b-1] = s[b-1], s[b]
			}
		}
		return nil
	}
	externals["sort.Slice"] = slice
	externals["sort.SliceStable"] = slice
	// reflectlite.Swapper for anything else that reaches it
	externals["internal/reflectlite.Swapper"] = func(fr *frame, args []value) value {
		panic(engineFault{"reflectlite.Swapper"})
	}
}

func registerTime() {
	// the clock: a fixed instant (the zero time.Time) unless a harness installs its own stub
	externals["time.Now"] = func(fr *frame, args []value) value {
		if fr.i.initDepth == 0 {
			fr.i.ex.noteAssumption("stub: time.Now returns the zero time.Time")
		}
		return structure{uint64(0), int64(0), (*value)(nil)}
	}
	externals["time.runtimeNano"] = func(fr *frame, args []value) value { return int64(0) }
	for _, n := range []string{"github.com/mattn/go-isatty.IsTerminal", "github.com/mattn/go-isatty.IsCygwinTerminal",
		"golang.org/x/term.IsTerminal"} {
		externals[n] = func(fr *frame, args []value) value { return false }
	}
	// Miller's own assertion helper: reaching it with a true condition is reported like a panic
	ice := func(fr *frame, args []value) value {
		switch c := args[0].(type) {
		case bool:
			if c {
				caller := fr.caller
				fr.i.ex.runtimePanic(caller, caller.callPos(), "internal coding error (lib.InternalCodingErrorIf reached with a true condition)")
			}
		case *symv:
			caller := fr.caller
			fr.i.ex.implicitAssert(caller, caller.callPos(), "internal coding error (lib.InternalCodingErrorIf)", not1(c.term))
		}
		return nil
	}
	externals["github.com/johnkerl/miller/v6/pkg/lib.InternalCodingErrorIf"] = ice
	externals["github.com/johnkerl/miller/v6/pkg/lib.InternalCodingErrorWithMessageIf"] = ice
	externals["runtime.Caller"] = func(fr *frame, args []value) value { return tuple{uintptr(0), "", 0, false} }
	externals["runtime.Callers"] = func(fr *frame, args []value) value { return 0 }
	externals["runtime/debug.Stack"] = func(fr *frame, args []value) value { return []value(nil) }
}
