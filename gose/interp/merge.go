package interp

// Merging of pure acyclic regions: an If on a symbolic condition whose arms contain only
// side-effect-free, non-panicking instructions and rejoin at one block is evaluated on both arms,
// and the φ-nodes of the join become ite terms.  This is what keeps `a && b`, `a || b` and
// `if c { x = … }` from doubling the number of paths.

import (
	"go/token"
	"go/types"
	"os"
	"sync"

	"golang.org/x/tools/go/ssa"
)

var noMerge = os.Getenv("GOSE_NOMERGE") != ""

type inEdge struct {
	from  *ssa.BasicBlock
	guard string
}

// pureInstr reports whether instr may be evaluated speculatively given the current environment.
func pureInstr(fr *frame, instr ssa.Instruction) bool {
	switch in := instr.(type) {
	case *ssa.DebugRef, *ssa.Phi, *ssa.ChangeType, *ssa.ChangeInterface, *ssa.MakeInterface, *ssa.Field, *ssa.Extract:
		return true
	case *ssa.BinOp:
		switch in.Op {
		case token.QUO, token.REM:
			return false
		case token.SHL, token.SHR:
			b := basicOf(in.Y.Type())
			if b == nil {
				return false
			}
			if _, signed := intBits(b); signed {
				if c, ok := in.Y.(*ssa.Const); ok && c.Int64() >= 0 {
					return true
				}
				return false
			}
		}
		if _, ok := in.X.Type().Underlying().(*types.Basic); !ok {
			// pointer / interface comparisons: fine, no panic (interface comparison of
			// uncomparable dynamic types can panic, exclude interfaces)
			if _, isI := in.X.Type().Underlying().(*types.Interface); isI {
				return false
			}
		}
		return true
	case *ssa.UnOp:
		switch in.Op {
		case token.NOT, token.SUB, token.XOR:
			return true
		case token.MUL:
			x, ok := fr.env[in.X]
			if !ok {
				if g, isG := in.X.(*ssa.Global); isG {
					_ = g
					return true
				}
				return false
			}
			switch p := x.(type) {
			case *value:
				return p != nil
			case *symptr:
				return true
			}
			return false
		}
		return false
	case *ssa.Convert:
		bs, bd := basicOf(in.X.Type()), basicOf(in.Type())
		if bs == nil || bd == nil {
			return false
		}
		num := types.IsInteger | types.IsFloat | types.IsBoolean
		return bs.Info()&types.BasicInfo(num) != 0 && bd.Info()&types.BasicInfo(num) != 0
	case *ssa.FieldAddr:
		x, ok := fr.env[in.X]
		if !ok {
			_, isG := in.X.(*ssa.Global)
			return isG
		}
		p, ok := x.(*value)
		return ok && p != nil
	case *ssa.Call:
		if b, ok := in.Call.Value.(*ssa.Builtin); ok {
			switch b.Name() {
			case "len", "cap":
				return true
			}
			return false
		}
		if callee := in.Call.StaticCallee(); callee != nil && in.Call.Method == nil {
			return fnStaticallyPure(fr.i, callee)
		}
		return false
	case *ssa.Lookup:
		// string indexing with a concrete in-range index
		x, ok := fr.env[in.X]
		if !ok {
			if c, isC := in.X.(*ssa.Const); isC {
				x = constValue(c)
				ok = true
			}
		}
		if !ok {
			return false
		}
		s, isStr := asSymBytes(x)
		if _, isSlice := x.([]value); isSlice || !isStr {
			return false
		}
		var iv value
		if c, isC := in.Index.(*ssa.Const); isC {
			iv = constValue(c)
		} else if v, ok := fr.env[in.Index]; ok {
			iv = v
		} else {
			return false
		}
		if _, sym := iv.(*symv); sym {
			return false
		}
		k := asInt64(iv)
		return k >= 0 && k < int64(len(s))
	case *ssa.Jump, *ssa.If:
		return true
	}
	return false
}

// mergeRegion tries to evaluate the region under the symbolic If as one step.
func mergeRegion(fr *frame, ifInstr *ssa.If, cond *symv) (ok bool) {
	if noMerge || fr.i.ex.replaying() && false {
		return false
	}
	ex := fr.i.ex
	B := fr.block
	pending := map[*ssa.BasicBlock][]inEdge{}
	var order []*ssa.BasicBlock
	evaluated := map[*ssa.BasicBlock]bool{B: true}
	backEdge := false
	addEdge := func(from, to *ssa.BasicBlock, g string) {
		if g == "false" {
			return
		}
		if evaluated[to] {
			// an edge back into a block already passed: the region is a loop, not a diamond —
			// it must be explored by forking, never merged
			backEdge = true
			return
		}
		if _, seen := pending[to]; !seen {
			order = append(order, to)
		}
		pending[to] = append(pending[to], inEdge{from, g})
	}
	addEdge(B, B.Succs[0], cond.term)
	addEdge(B, B.Succs[1], not1(cond.term))
	savedSteps := ex.steps
	ex.spec++
	defer func() { ex.spec-- }()
	defer func() {
		if r := recover(); r != nil {
			if _, isFault := r.(engineFault); isFault || true {
				ok = false
				ex.steps = savedSteps
				_ = r
			}
		}
	}()
	for n := 0; ; n++ {
		if backEdge {
			return false
		}
		// all pending edges into one block?
		var targets []*ssa.BasicBlock
		for _, b := range order {
			if len(pending[b]) > 0 && !evaluated[b] {
				targets = append(targets, b)
			}
		}
		if len(targets) == 0 {
			return false
		}
		if len(targets) == 1 {
			J := targets[0]
			if !setJoinPhis(fr, J, pending[J]) {
				return false
			}
			// pick as predecessor any arrived edge (φ values are preset)
			fr.prevBlock, fr.block = pending[J][0].from, J
			fr.skipPhis = true
			return true
		}
		if n >= 16 {
			return false
		}
		// pick a ready pure block
		var X *ssa.BasicBlock
		for _, b := range targets {
			if len(pending[b]) != len(b.Preds) {
				continue
			}
			pure := true
			for _, in := range b.Instrs {
				if !pureInstr(fr, in) {
					pure = false
					break
				}
			}
			// pureInstr for loads depends on values computed in this block; checked again during evaluation
			if pure || blockStaticallyPure(b) {
				X = b
				break
			}
		}
		if X == nil {
			return false
		}
		evaluated[X] = true
		// block guard
		g := "false"
		for _, e := range pending[X] {
			g = or2(g, e.guard)
		}
		g = ex.named(mkBool(g)).term
		// φ-nodes
		if !setJoinPhis(fr, X, pending[X]) {
			return false
		}
		for _, in := range X.Instrs {
			switch in := in.(type) {
			case *ssa.Phi, *ssa.DebugRef:
				continue
			case *ssa.Jump:
				addEdge(X, X.Succs[0], g)
			case *ssa.If:
				c := fr.get(in.Cond)
				switch c := c.(type) {
				case bool:
					if c {
						addEdge(X, X.Succs[0], g)
					} else {
						addEdge(X, X.Succs[1], g)
					}
				case *symv:
					addEdge(X, X.Succs[0], and2(g, c.term))
					addEdge(X, X.Succs[1], and2(g, not1(c.term)))
				default:
					return false
				}
			default:
				if !pureInstr(fr, in) {
					return false
				}
				saveBlock, savePrev := fr.block, fr.prevBlock
				visitInstr(fr, in)
				fr.block, fr.prevBlock = saveBlock, savePrev
			}
		}
	}
}

// blockStaticallyPure: every instruction is of a kind that pureInstr may accept once operands exist.
func blockStaticallyPure(b *ssa.BasicBlock) bool {
	for _, in := range b.Instrs {
		switch x := in.(type) {
		case *ssa.DebugRef, *ssa.Phi, *ssa.ChangeType, *ssa.ChangeInterface, *ssa.MakeInterface, *ssa.Field, *ssa.Extract,
			*ssa.BinOp, *ssa.Convert, *ssa.FieldAddr, *ssa.Jump, *ssa.If, *ssa.Lookup:
		case *ssa.UnOp:
			if x.Op == token.ARROW {
				return false
			}
		case *ssa.Call:
			if b, ok := x.Call.Value.(*ssa.Builtin); ok {
				if b.Name() != "len" && b.Name() != "cap" {
					return false
				}
			} else if x.Call.StaticCallee() == nil || x.Call.Method != nil {
				return false
			}
		default:
			return false
		}
	}
	return true
}

var pureFnCache sync.Map // *ssa.Function -> bool

// fnStaticallyPure: a small function made only of side-effect-free instruction kinds (no stores,
// no allocation, no calls other than len/cap, no division, no indexing).  It is evaluated
// speculatively; a symbolic branch or implicit assertion inside it aborts the merge.
func fnStaticallyPure(i *interpreter, fn *ssa.Function) bool {
	if v, ok := pureFnCache.Load(fn); ok {
		return v.(bool)
	}
	pure := fn.Blocks != nil && len(fn.Blocks) <= 6 && fn.Recover == nil
	if pure {
		if fi := i.info(fn); fi.ext != nil || fi.isVerif {
			pure = false
		}
	}
	n := 0
	if pure {
	outer:
		for _, b := range fn.Blocks {
			for _, in := range b.Instrs {
				n++
				switch x := in.(type) {
				case *ssa.DebugRef, *ssa.Phi, *ssa.ChangeType, *ssa.Convert, *ssa.Jump, *ssa.If, *ssa.Return, *ssa.Extract:
				case *ssa.BinOp:
					if x.Op == token.QUO || x.Op == token.REM {
						pure = false
						break outer
					}
					if x.Op == token.SHL || x.Op == token.SHR {
						if b := basicOf(x.Y.Type()); b != nil {
							if _, signed := intBits(b); signed {
								if c, ok := x.Y.(*ssa.Const); !ok || c.Int64() < 0 {
									pure = false
									break outer
								}
							}
						}
					}
					if _, isI := x.X.Type().Underlying().(*types.Interface); isI {
						pure = false
						break outer
					}
				case *ssa.UnOp:
					if x.Op != token.NOT && x.Op != token.SUB && x.Op != token.XOR {
						pure = false
						break outer
					}
				default:
					pure = false
					break outer
				}
			}
		}
	}
	if n > 40 {
		pure = false
	}
	pureFnCache.Store(fn, pure)
	return pure
}

// setJoinPhis computes the φ-nodes of block J from the arrived edges as ite terms.
func setJoinPhis(fr *frame, J *ssa.BasicBlock, edges []inEdge) bool {
	type pv struct {
		phi *ssa.Phi
		v   value
	}
	var out []pv
	for _, in := range J.Instrs {
		phi, ok := in.(*ssa.Phi)
		if !ok {
			break
		}
		var acc value
		for k := len(edges) - 1; k >= 0; k-- {
			e := edges[k]
			pi := -1
			for idx, p := range J.Preds {
				if p == e.from {
					pi = idx
					break
				}
			}
			if pi < 0 {
				return false
			}
			v := fr.get(phi.Edges[pi])
			if acc == nil {
				acc = v
				continue
			}
			m, ok := iteValue(fr, e.guard, v, acc)
			if !ok {
				return false
			}
			acc = m
		}
		out = append(out, pv{phi, acc})
	}
	for _, p := range out {
		fr.env[p.phi] = p.v
	}
	return true
}

// iteValue builds ite(g, a, b) for scalar values (or identical values).
func iteValue(fr *frame, g string, a, b value) (value, bool) {
	if !isSym(a) && !isSym(b) {
		switch a.(type) {
		case bool, int, int8, int16, int32, int64, uint, uint8, uint16, uint32, uint64, uintptr, float64, string:
			if a == b {
				return a, true
			}
		case *value:
			if pb, ok := b.(*value); ok && pb == a.(*value) {
				return a, true
			}
		}
	}
	switch a.(type) {
	case *symv, bool, int, int8, int16, int32, int64, uint, uint8, uint16, uint32, uint64, uintptr, float64:
		switch b.(type) {
		case *symv, bool, int, int8, int16, int32, int64, uint, uint8, uint16, uint32, uint64, uintptr, float64:
			ta, tb := toTermV(a), toTermV(b)
			if ta.sort != tb.sort || ta.bits != tb.bits {
				return nil, false
			}
			return fr.i.ex.named(iteTerm(g, ta, tb)), true
		}
	case string, symstr:
		switch b.(type) {
		case string, symstr:
			sa, sb := toSymstr(a), toSymstr(b)
			if len(sa) != len(sb) {
				return nil, false
			}
			out := make(symstr, len(sa))
			for i := range sa {
				if ca, ok := sa[i].(uint8); ok {
					if cb, ok := sb[i].(uint8); ok && ca == cb {
						out[i] = ca
						continue
					}
				}
				out[i] = fr.i.ex.named(iteTerm(g, toTermV(sa[i]), toTermV(sb[i])))
			}
			return normStr(out), true
		}
	}
	return nil, false
}
