package interp

// omap: the engine's map representation.  Insertion-ordered (so that iteration is deterministic,
// which decision-prefix re-execution needs), with an index for concrete hashable keys and a linear
// scan with forking for symbolic keys.

import (
	"fmt"
	"go/types"
)

type omap struct {
	keyType types.Type
	keys    []value
	vals    []value
	idx     map[any]int // concrete basic/pointer keys → position (only when fastKeys)
	fast    bool        // key type is basic or pointer (usable as Go map key when concrete)
	nsym    int         // number of symbolic keys stored
}

func makeMap(kt types.Type, reserve int64) value {
	m := &omap{keyType: kt}
	switch kt.Underlying().(type) {
	case *types.Basic, *types.Pointer, *types.Chan:
		m.fast = true
		m.idx = make(map[any]int)
	}
	return m
}

func (m *omap) len() int {
	if m == nil {
		return 0
	}
	return len(m.keys)
}

func keyIsSym(k value) bool {
	switch x := k.(type) {
	case *symv, symstr:
		return true
	case structure:
		for _, e := range x {
			if keyIsSym(e) {
				return true
			}
		}
	case array:
		for _, e := range x {
			if keyIsSym(e) {
				return true
			}
		}
	case iface:
		return keyIsSym(x.v)
	}
	return false
}

// find returns the position of key k or -1.  May fork when symbolic keys are involved.
func (m *omap) find(fr *frame, k value) int {
	if m == nil {
		return -1
	}
	if s, ok := k.(symstr); ok {
		k = normStr(s)
	}
	ksym := keyIsSym(k)
	if m.fast && !ksym && m.nsym == 0 {
		if p, ok := m.idx[k]; ok {
			return p
		}
		return -1
	}
	for p := range m.keys {
		if !ksym && !keyIsSym(m.keys[p]) {
			if equals(m.keyType, m.keys[p], k) {
				return p
			}
			continue
		}
		c := symEquals(fr, m.keyType, m.keys[p], k)
		if symBranch(fr, c, nil) {
			return p
		}
	}
	return -1
}

func (m *omap) lookup(fr *frame, k value) (value, bool) {
	p := m.find(fr, k)
	if p < 0 {
		return nil, false
	}
	return m.vals[p], true
}

func (m *omap) insert(fr *frame, k value, v value) {
	ex := fr.i.ex
	if s, ok := k.(symstr); ok {
		k = normStr(s)
	}
	p := m.find(fr, k)
	if p >= 0 {
		old := m.vals[p]
		ex.logUndo(func() { m.vals[p] = old })
		m.vals[p] = v
		return
	}
	ksym := keyIsSym(k)
	n := len(m.keys)
	ex.logUndo(func() {
		m.keys = m.keys[:n]
		m.vals = m.vals[:n]
		if ksym {
			m.nsym--
		} else if m.fast {
			delete(m.idx, k)
		}
	})
	m.keys = append(m.keys[:n:n], k)
	m.vals = append(m.vals[:n:n], v)
	if ksym {
		m.nsym++
	} else if m.fast {
		m.idx[k] = n
	}
}

func (m *omap) delete(fr *frame, k value) {
	if m == nil {
		return
	}
	p := m.find(fr, k)
	if p < 0 {
		return
	}
	m.removeAt(fr, p)
}

func (m *omap) removeAt(fr *frame, p int) {
	ex := fr.i.ex
	oldK, oldV := m.keys, m.vals
	oldN := m.nsym
	ex.logUndo(func() {
		m.keys, m.vals, m.nsym = oldK, oldV, oldN
		m.reindex()
	})
	if keyIsSym(m.keys[p]) {
		m.nsym--
	}
	nk := make([]value, 0, len(oldK)-1)
	nv := make([]value, 0, len(oldV)-1)
	nk = append(append(nk, oldK[:p]...), oldK[p+1:]...)
	nv = append(append(nv, oldV[:p]...), oldV[p+1:]...)
	m.keys, m.vals = nk, nv
	m.reindex()
}

func (m *omap) clear(fr *frame) {
	if m == nil {
		return
	}
	ex := fr.i.ex
	oldK, oldV, oldN := m.keys, m.vals, m.nsym
	ex.logUndo(func() {
		m.keys, m.vals, m.nsym = oldK, oldV, oldN
		m.reindex()
	})
	m.keys, m.vals, m.nsym = nil, nil, 0
	m.reindex()
}

func (m *omap) reindex() {
	if !m.fast {
		return
	}
	m.idx = make(map[any]int, len(m.keys))
	for p, k := range m.keys {
		if !keyIsSym(k) {
			m.idx[k] = p
		}
	}
}

// omapIter iterates over a snapshot of the keys in insertion order (a legal Go order);
// entries deleted during iteration are skipped, as Go does.
type omapIter struct {
	m    *omap
	keys []value
	pos  int
	fr   *frame
}

func (it *omapIter) next() tuple {
	for it.pos < len(it.keys) {
		k := it.keys[it.pos]
		it.pos++
		// still present?  (identity of position may have changed; search by concrete equality only)
		for p := range it.m.keys {
			if sameKeyObject(it.m.keys[p], k) {
				return tuple{true, k, it.m.vals[p]}
			}
		}
	}
	return tuple{false, nil, nil}
}

func sameKeyObject(a, b value) bool {
	defer func() { recover() }()
	switch x := a.(type) {
	case *symv:
		y, ok := b.(*symv)
		return ok && x == y
	case symstr:
		y, ok := b.(symstr)
		return ok && len(x) == len(y) && (len(x) == 0 || &x[0] == &y[0])
	case structure:
		y, ok := b.(structure)
		if !ok || len(x) != len(y) {
			return false
		}
		for i := range x {
			if !sameKeyObject(x[i], y[i]) {
				return false
			}
		}
		return true
	case array:
		y, ok := b.(array)
		if !ok || len(x) != len(y) {
			return false
		}
		for i := range x {
			if !sameKeyObject(x[i], y[i]) {
				return false
			}
		}
		return true
	case iface:
		y, ok := b.(iface)
		return ok && sameType(x.t, y.t) && sameKeyObject(x.v, y.v)
	}
	return a == b
}

// symEquals is Go's == on values that may contain symbolic scalars; returns bool or *symv.
func symEquals(fr *frame, t types.Type, x, y value) value {
	tm := symEqualsTerm(fr, t, x, y)
	switch tm {
	case "true":
		return true
	case "false":
		return false
	}
	return fr.i.ex.named(mkBool(tm))
}

func symEqualsTerm(fr *frame, t types.Type, x, y value) string {
	if !keyIsSym(x) && !keyIsSym(y) {
		if equals(t, x, y) {
			return "true"
		}
		return "false"
	}
	switch xv := x.(type) {
	case *symv:
		return eqTerm(xv, toTermV(y))
	case symstr:
		return symstrEqTerm(xv, toSymstr(y))
	case string:
		return symstrEqTerm(toSymstr(xv), toSymstr(y))
	case structure:
		yv := y.(structure)
		st := t.Underlying().(*types.Struct)
		acc := "true"
		for i := 0; i < st.NumFields(); i++ {
			if st.Field(i).Name() == "_" {
				continue
			}
			acc = and2(acc, symEqualsTerm(fr, st.Field(i).Type(), xv[i], yv[i]))
		}
		return acc
	case array:
		yv := y.(array)
		et := t.Underlying().(*types.Array).Elem()
		acc := "true"
		for i := range xv {
			acc = and2(acc, symEqualsTerm(fr, et, xv[i], yv[i]))
		}
		return acc
	case iface:
		yv := y.(iface)
		if !sameType(xv.t, yv.t) {
			return "false"
		}
		if xv.t == nil {
			return "true"
		}
		return symEqualsTerm(fr, xv.t, xv.v, yv.v)
	}
	if ys, ok := y.(*symv); ok {
		return eqTerm(toTermV(x), ys)
	}
	panic(engineFault{fmt.Sprintf("symEquals: %T vs %T", x, y)})
}
